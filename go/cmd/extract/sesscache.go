package main

import (
	"fmt"
	"path/filepath"
	"strings"

	"verifharness/internal/goast"
)

func init() { register("sesscache", extractSessCache) }

// protocol facts of session_cache.go that the C16 interleaving model is parameterised by.
func extractSessCache(repo string) (map[string]string, error) {
	f, err := goast.Parse(filepath.Join(repo, "go/appencryption/session_cache.go"))
	if err != nil {
		return nil, err
	}
	sk := map[string][]string{}
	for _, name := range []string{"cacheWrapper.Get", "cacheWrapper.getOrAdd", "sharedEncryption.incrementUsage",
		"sharedEncryption.Close", "sharedEncryption.Remove", "newSessionCache", "cacheWrapper.Close", "incrementSharedSessionUsage"} {
		fd, err := f.Func(name)
		if err != nil {
			return nil, err
		}
		sk[name] = goast.Skeleton(fd)
	}
	g := sk["cacheWrapper.Get"]
	// c.mu.Lock; defer c.mu.Unlock; … c.getOrAdd … incrementSharedSessionUsage …
	incrUnder := len(g) > 2 && g[0] == "c.mu.Lock" && g[1] == "defer:c.mu.Unlock" &&
		indexOf(g, eq("c.getOrAdd"), 0) > 0 && indexOf(g, eq("incrementSharedSessionUsage"), 0) > indexOf(g, eq("c.getOrAdd"), 0)
	r := sk["sharedEncryption.Remove"]
	wait := indexOf(r, func(t string) bool { return strings.HasPrefix(t, "for(s.accessCounter>0)") }, 0)
	cl := indexOf(r, eq("s.Encryption.Close"), 0)
	removeWaits := wait >= 0 && cl > wait && wait+1 < len(r) && r[wait+1] == "s.cond.Wait" && r[0] == "s.mu.Lock"
	n := sk["newSessionCache"]
	spawn := false
	if i := indexOf(n, eq("func{"), 0); i >= 0 {
		j := indexOf(n, eq("}"), i)
		body := n[i+1 : j]
		spawn = len(body) == 1 && strings.HasPrefix(body[0], "go:") && strings.HasSuffix(body[0], ".Remove")
	}
	c := sk["sharedEncryption.Close"]
	onlyDecr := indexOf(c, eq("assign:s.accessCounter--"), 0) >= 0 && indexOf(c, func(t string) bool { return strings.Contains(t, "Encryption.Close") }, 0) < 0
	b := func(x bool) string { return fmt.Sprint(x) }
	var sb strings.Builder
	sb.WriteString("import AsherahVerif.Model.SessCache\nnamespace AsherahVerif.Generated.SessCacheFacts\n")
	sb.WriteString("def facts : AsherahVerif.SessCache.Facts :=\n")
	sb.WriteString(fmt.Sprintf("  { incrUnderCacheMutex := %s, removeWaitsForZero := %s, evictSpawnsRemover := %s, closeOnlyDecrements := %s }\n",
		b(incrUnder), b(removeWaits), b(spawn), b(onlyDecr)))
	for _, name := range []string{"cacheWrapper.Get", "cacheWrapper.getOrAdd", "sharedEncryption.Close", "sharedEncryption.Remove", "newSessionCache"} {
		sb.WriteString(fmt.Sprintf("def skel_%s : List String := %s\n", strings.ReplaceAll(name, ".", "_"), goast.LeanStringList(sk[name])))
	}
	sb.WriteString("end AsherahVerif.Generated.SessCacheFacts\n")
	return map[string]string{"SessCacheFacts.lean": sb.String()}, nil
}
