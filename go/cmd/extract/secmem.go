package main

import (
	"fmt"
	"path/filepath"
	"regexp"
	"strings"

	"verifharness/internal/goast"
)

func init() { register("secmem", extractSecMem) }

var errCond = regexp.MustCompile(`^if\(([A-Za-z_][A-Za-z0-9_]*)(!=|==)nil\)\{$`)

// normErr makes the skeletons insensitive to the NAMES of local error variables: `if(<x>!=nil){`,
// `if(<x>==nil){` and `<x>.Error` with an identifier containing "err" are printed with `err`.
func normErr(toks []string) []string {
	out := make([]string, len(toks))
	for i, t := range toks {
		out[i] = t
		if m := errCond.FindStringSubmatch(t); m != nil && strings.Contains(strings.ToLower(m[1]), "err") {
			out[i] = "if(err" + m[2] + "nil){"
		} else if strings.HasSuffix(t, ".Error") && !strings.Contains(t[:len(t)-6], ".") && strings.Contains(strings.ToLower(t), "err") {
			out[i] = "err.Error"
		}
	}
	return out
}

// Facts properties C11 / C12 rest on: the normalised skeletons (callee names, conditions, lock
// scopes, defers, field stores) of the functions whose shape Model/SecMem.lean mirrors —
// protectedmemory access / release / isClosed / Close / close / New / CreateRandom / createRandom /
// newSecret / WithBytes / WithBytesFunc, the memguard equivalents, memcall.Clean, the default memcall
// wrapper, and secrets.Reader.Read.
func extractSecMem(repo string) (map[string]string, error) {
	dir := filepath.Join(repo, "go/securememory")
	type item struct{ lean, file, fn string }
	items := []item{
		{"pmAccess", "protectedmemory/secret.go", "secretInternal.access"},
		{"pmRelease", "protectedmemory/secret.go", "secretInternal.release"},
		{"pmIsClosed", "protectedmemory/secret.go", "secretInternal.isClosed"},
		{"pmClose", "protectedmemory/secret.go", "secretInternal.Close"},
		{"pmCloseInner", "protectedmemory/secret.go", "secretInternal.close"},
		{"pmWithBytes", "protectedmemory/secret.go", "secret.WithBytes"},
		{"pmWithBytesFunc", "protectedmemory/secret.go", "secret.WithBytesFunc"},
		{"pmNew", "protectedmemory/secret.go", "SecretFactory.New"},
		{"pmCreateRandom", "protectedmemory/secret.go", "SecretFactory.CreateRandom"},
		{"pmCreateRandomInner", "protectedmemory/secret.go", "SecretFactory.createRandom"},
		{"pmNewSecret", "protectedmemory/secret.go", "newSecret"},
		{"pmNewReader", "protectedmemory/secret.go", "secret.NewReader"},
		{"mgAccess", "memguard/secret.go", "secret.access"},
		{"mgRelease", "memguard/secret.go", "secret.release"},
		{"mgIsClosed", "memguard/secret.go", "secret.IsClosed"},
		{"mgClose", "memguard/secret.go", "secret.Close"},
		{"mgWithBytes", "memguard/secret.go", "secret.WithBytes"},
		{"mgWithBytesFunc", "memguard/secret.go", "secret.WithBytesFunc"},
		{"mgNew", "memguard/secret.go", "SecretFactory.New"},
		{"mgCreateRandom", "memguard/secret.go", "SecretFactory.CreateRandom"},
		{"mgNewFromBuffer", "memguard/secret.go", "SecretFactory.newFromBuffer"},
		{"mgNewReader", "memguard/secret.go", "secret.NewReader"},
		{"memcallClean", "internal/memcall/util.go", "Clean"},
		{"wrapAlloc", "internal/memcall/memcall.go", "wrapper.Alloc"},
		{"wrapProtect", "internal/memcall/memcall.go", "wrapper.Protect"},
		{"wrapLock", "internal/memcall/memcall.go", "wrapper.Lock"},
		{"wrapUnlock", "internal/memcall/memcall.go", "wrapper.Unlock"},
		{"wrapFree", "internal/memcall/memcall.go", "wrapper.Free"},
		{"readerRead", "internal/secrets/reader.go", "Reader.Read"},
		{"readerNew", "internal/secrets/reader.go", "NewReader"},
	}
	files := map[string]*goast.File{}
	var b strings.Builder
	b.WriteString("namespace AsherahVerif.Generated.SecMem\n")
	for _, it := range items {
		f := files[it.file]
		if f == nil {
			var err error
			if f, err = goast.Parse(filepath.Join(dir, it.file)); err != nil {
				return nil, err
			}
			files[it.file] = f
		}
		fd, err := f.Func(it.fn)
		if err != nil {
			return nil, err
		}
		fmt.Fprintf(&b, "/-- `%s` (%s) -/\ndef %s : List String := %s\n", it.fn, it.file, it.lean, goast.LeanStringList(normErr(goast.Skeleton(fd))))
	}
	// the closed-secret error text both packages return (the harness recognises it by this text)
	for _, it := range [][2]string{{"pmClosedErr", "protectedmemory/secret.go"}, {"mgClosedErr", "memguard/secret.go"}} {
		v, err := files[it[1]].Const("secretClosedErr")
		if err != nil {
			return nil, err
		}
		fmt.Fprintf(&b, "def %s : String := %s\n", it[0], goast.LeanString(strings.Trim(v, "\"")))
	}
	b.WriteString("end AsherahVerif.Generated.SecMem\n")
	return map[string]string{"SecMem.lean": b.String()}, nil
}
