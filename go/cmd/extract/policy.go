package main

import (
	"fmt"
	"go/ast"
	"path/filepath"
	"strings"

	"verifharness/internal/goast"
)

func init() { register("policy", extractPolicy) }

// Facts about go/appencryption/policy.go that no harness exercises (the harnesses set the policy
// fields directly): what every PolicyOption assigns, the defaults NewCryptoPolicy starts from, and the
// bodies of the clock helpers.  A `With…` option that sets one field too many (or the wrong one)
// silently changes which caches exist.
func extractPolicy(repo string) (map[string]string, error) {
	f, err := goast.Parse(filepath.Join(repo, "go/appencryption/policy.go"))
	if err != nil {
		return nil, err
	}
	var b strings.Builder
	b.WriteString("namespace AsherahVerif.Generated.Policy\n")
	var opts []string
	for _, d := range f.AST.Decls {
		fd, ok := d.(*ast.FuncDecl)
		if !ok || fd.Recv != nil || fd.Body == nil || fd.Type.Results == nil || len(fd.Type.Results.List) != 1 {
			continue
		}
		if goast.ExprString(fd.Type.Results.List[0].Type) != "PolicyOption" {
			continue
		}
		var params []string
		for _, p := range fd.Type.Params.List {
			for _, n := range p.Names {
				params = append(params, n.Name)
			}
		}
		var sets []string
		ast.Inspect(fd.Body, func(n ast.Node) bool {
			if as, ok := n.(*ast.AssignStmt); ok {
				for i, l := range as.Lhs {
					if i < len(as.Rhs) {
						sets = append(sets, goast.ExprString(l)+"="+goast.ExprString(as.Rhs[i]))
					}
				}
			}
			return true
		})
		opts = append(opts, fmt.Sprintf("%s(%s): %s", fd.Name.Name, strings.Join(params, ","), strings.Join(sets, "; ")))
	}
	fmt.Fprintf(&b, "/-- every function returning a PolicyOption: its parameters and the fields it assigns -/\ndef options : List String := %s\n", goast.LeanStringList(opts))
	np, err := f.Func("NewCryptoPolicy")
	if err != nil {
		return nil, err
	}
	var defaults []string
	ast.Inspect(np.Body, func(n ast.Node) bool {
		if kv, ok := n.(*ast.KeyValueExpr); ok {
			defaults = append(defaults, goast.ExprString(kv.Key)+"="+goast.ExprString(kv.Value))
		}
		return true
	})
	fmt.Fprintf(&b, "/-- the literal NewCryptoPolicy starts from -/\ndef defaults : List String := %s\n", goast.LeanStringList(defaults))
	var consts []string
	for _, c := range []string{"DefaultExpireAfter", "DefaultRevokedCheckInterval", "DefaultCreateDatePrecision", "DefaultKeyCacheMaxSize",
		"DefaultSessionCacheMaxSize", "DefaultSessionCacheDuration"} {
		if v, err := f.Const(c); err == nil {
			consts = append(consts, c+"="+v)
		}
	}
	fmt.Fprintf(&b, "def constants : List String := %s\n", goast.LeanStringList(consts))
	fmt.Fprintf(&b, "def newCryptoPolicySkeleton : List String := %s\n", goast.LeanStringList(goast.Skeleton(np)))
	for _, name := range []string{"newKeyTimestamp", "isKeyExpired"} {
		if _, err := f.Func(name); err != nil {
			continue
		}
		fd, err := f.Func(name)
		if err != nil {
			return nil, err
		}
		var rets []string
		ast.Inspect(fd.Body, func(n ast.Node) bool {
			if rs, ok := n.(*ast.ReturnStmt); ok {
				for _, r := range rs.Results {
					rets = append(rets, goast.ExprString(r))
				}
			}
			return true
		})
		fmt.Fprintf(&b, "def %sSkeleton : List String := %s\n", name, goast.LeanStringList(goast.Skeleton(fd)))
		fmt.Fprintf(&b, "def %sReturns : List String := %s\n", name, goast.LeanStringList(rets))
	}
	b.WriteString("end AsherahVerif.Generated.Policy\n")
	return map[string]string{"Policy.lean": b.String()}, nil
}
