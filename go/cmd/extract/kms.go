package main

import (
	"fmt"
	"go/ast"
	"path/filepath"
	"strings"

	"verifharness/internal/goast"
)

func init() { register("kms", extractKms) }

// Facts of the two AWS KMS plugins that Model/Kms.lean mirrors (C17, KMS part of C10): the normalised
// skeletons of the functions whose shape the model follows and the json tags of the envelope structs.
func extractKms(repo string) (map[string]string, error) {
	v1, err := goast.Parse(filepath.Join(repo, "go/appencryption/plugins/aws-v1/kms/aws.go"))
	if err != nil {
		return nil, err
	}
	v2, err := goast.Parse(filepath.Join(repo, "go/appencryption/plugins/aws-v2/kms/kms.go"))
	if err != nil {
		return nil, err
	}
	v2b, err := goast.Parse(filepath.Join(repo, "go/appencryption/plugins/aws-v2/kms/builder.go"))
	if err != nil {
		return nil, err
	}
	var sb strings.Builder
	sb.WriteString("namespace AsherahVerif.Generated.Kms\n")
	skel := func(lean string, f *goast.File, fn string) error {
		fd, err := f.Func(fn)
		if err != nil {
			return err
		}
		fmt.Fprintf(&sb, "/-- skeleton of `%s` (%s) -/\ndef %s : List String :=\n  %s\n", fn, filepath.Base(f.Path), lean,
			goast.LeanStringList(goast.Skeleton(fd)))
		return nil
	}
	tags := func(lean string, f *goast.File, typ string) error {
		ts, err := f.StructTags(typ, "json")
		if err != nil {
			return err
		}
		var q []string
		for _, t := range ts {
			q = append(q, "("+goast.LeanString(t[0])+", "+goast.LeanString(t[1])+")")
		}
		fmt.Fprintf(&sb, "/-- json tags of struct `%s` (%s), in field order -/\ndef %s : List (String × String) :=\n  [%s]\n", typ,
			filepath.Base(f.Path), lean, strings.Join(q, ", "))
		return nil
	}
	// what goast.Skeleton leaves out but the model depends on: assignments and returned expressions
	// verbatim (which end `append` adds to, the `less` function of the sort), bodies of `go func`
	// literals, arguments of MemClr calls
	det := func(lean string, f *goast.File, fn string) error {
		fd, err := f.Func(fn)
		if err != nil {
			return err
		}
		fmt.Fprintf(&sb, "/-- statements of `%s` (%s): assignments, returns, go/defer, MemClr calls -/\ndef %s : List String :=\n  %s\n", fn,
			filepath.Base(f.Path), lean, goast.LeanStringList(details(fd)))
		return nil
	}
	steps := []error{
		det("v1SortClientsStmts", v1, "sortClients"),
		det("v1EncryptAllRegionsStmts", v1, "encryptAllRegions"),
		det("v1EncryptKeyStmts", v1, "AWSKMS.EncryptKey"),
		det("v1DecryptKeyStmts", v1, "AWSKMS.DecryptKey"),
		det("v2BuildStmts", v2b, "Builder.Build"),
		det("v2EncryptAllRegionsStmts", v2, "AWSKMS.encryptAllRegions"),
		det("v2EncryptKeyStmts", v2, "AWSKMS.EncryptKey"),
		det("v2DecryptKeyStmts", v2, "AWSKMS.DecryptKey"),
		skel("v1SortClients", v1, "sortClients"),
		skel("v1NewAWS", v1, "NewAWS"),
		skel("v1newAWS", v1, "newAWS"),
		skel("v1CreateClients", v1, "createAWSKMSClients"),
		skel("v1KeysGet", v1, "keys.get"),
		skel("v1EncryptKey", v1, "AWSKMS.EncryptKey"),
		skel("v1EncryptAllRegions", v1, "encryptAllRegions"),
		skel("v1GenerateDataKey", v1, "generateDataKey"),
		skel("v1DecryptKey", v1, "AWSKMS.DecryptKey"),
		tags("v1EnvelopeTags", v1, "envelope"),
		tags("v1KekTags", v1, "encryptionKey"),
		skel("v2NewAWS", v2, "NewAWS"),
		skel("v2NewBuilder", v2b, "NewBuilder"),
		skel("v2Build", v2b, "Builder.Build"),
		skel("v2EncryptKey", v2, "AWSKMS.EncryptKey"),
		skel("v2GenerateDataKey", v2, "AWSKMS.generateDataKey"),
		skel("v2EncryptRegionalKEKs", v2, "AWSKMS.encryptRegionalKEKs"),
		skel("v2EncryptAllRegions", v2, "AWSKMS.encryptAllRegions"),
		skel("v2DecryptKey", v2, "AWSKMS.DecryptKey"),
		skel("v2ClientGenerateDataKey", v2, "regionalClient.GenerateDataKey"),
		skel("v2ClientEncryptKey", v2, "regionalClient.EncryptKey"),
		skel("v2ClientDecryptKey", v2, "regionalClient.DecryptKey"),
		tags("v2EnvelopeTags", v2, "envelope"),
		tags("v2KekTags", v2, "regionalKEK"),
	}
	for _, e := range steps {
		if e != nil {
			return nil, e
		}
	}
	// the package-level indirections of v1 (`generateDataKeyFunc = generateDataKey`, ...): the model
	// assumes EncryptKey reaches the functions above through them
	for _, v := range [][2]string{{"v1GenerateDataKeyFunc", "generateDataKeyFunc"}, {"v1EncryptAllRegionsFunc", "encryptAllRegionsFunc"}} {
		val, err := v1.Const(v[1])
		if err != nil {
			return nil, err
		}
		fmt.Fprintf(&sb, "def %s : String := %s\n", v[0], goast.LeanString(val))
	}
	sb.WriteString("end AsherahVerif.Generated.Kms\n")
	return map[string]string{"Kms.lean": sb.String()}, nil
}

// details lists, in source order and including function literals: every assignment, return, if, range
// and branch statement with its expressions, go/defer statements with the called expression, and calls of MemClr with arguments.
func details(fd *ast.FuncDecl) []string {
	var out []string
	exprs := func(es []ast.Expr) string {
		var q []string
		for _, e := range es {
			q = append(q, goast.ExprString(e))
		}
		return strings.Join(q, ",")
	}
	ast.Inspect(fd.Body, func(n ast.Node) bool {
		switch t := n.(type) {
		case *ast.AssignStmt:
			out = append(out, exprs(t.Lhs)+t.Tok.String()+exprs(t.Rhs))
		case *ast.IfStmt:
			out = append(out, "if "+goast.ExprString(t.Cond))
		case *ast.RangeStmt:
			out = append(out, "range "+goast.ExprString(t.X))
		case *ast.BranchStmt:
			out = append(out, t.Tok.String())
		case *ast.ReturnStmt:
			out = append(out, "return "+exprs(t.Results))
		case *ast.GoStmt:
			out = append(out, "go "+goast.ExprString(t.Call.Fun))
		case *ast.DeferStmt:
			out = append(out, "defer "+goast.ExprString(t.Call))
		case *ast.SendStmt:
			out = append(out, goast.ExprString(t.Chan)+"<-"+goast.ExprString(t.Value))
		case *ast.CallExpr:
			if name := goast.ExprString(t.Fun); strings.HasSuffix(name, "MemClr") {
				out = append(out, "call "+goast.ExprString(t))
			}
		}
		return true
	})
	return out
}
