package main

import (
	"fmt"
	"go/ast"
	"go/token"
	"path/filepath"
	"strconv"
	"strings"

	"verifharness/internal/goast"
)

func init() { register("partition", extractPartition) }

// Facts property C06 (partition isolation) rests on:
//   - the four key-id Sprintf formats of partition.go and the order of their arguments,
//   - the return expressions / skeletons of both IsValidIntermediateKeyID methods,
//   - the field mapping of the two partition constructors,
//   - GetSession's empty-id refusal, newPartition's choice between suffixed and default,
//   - the guard sequence at the top of DecryptDataRowRecord up to the first key-cache lookup,
//   - where EncryptPayload takes the record's parent key id from,
//   - cacheKey's body.
func extractPartition(repo string) (map[string]string, error) {
	dir := filepath.Join(repo, "go/appencryption")
	pf, err := goast.Parse(filepath.Join(dir, "partition.go"))
	if err != nil {
		return nil, err
	}
	sf, err := goast.Parse(filepath.Join(dir, "session.go"))
	if err != nil {
		return nil, err
	}
	ef, err := goast.Parse(filepath.Join(dir, "envelope.go"))
	if err != nil {
		return nil, err
	}
	kf, err := goast.Parse(filepath.Join(dir, "key_cache.go"))
	if err != nil {
		return nil, err
	}

	var b strings.Builder
	b.WriteString("namespace AsherahVerif.Generated.Partition\n")

	// --- Sprintf formats -----------------------------------------------------------------------
	for _, it := range [][2]string{
		{"fmtSK", "defaultPartition.SystemKeyID"},
		{"fmtIK", "defaultPartition.IntermediateKeyID"},
		{"fmtSKSfx", "suffixedPartition.SystemKeyID"},
		{"fmtIKSfx", "suffixedPartition.IntermediateKeyID"},
	} {
		fd, err := pf.Func(it[1])
		if err != nil {
			return nil, err
		}
		format, args, err := partSprintf(fd)
		if err != nil {
			return nil, fmt.Errorf("%s: %v", it[1], err)
		}
		fmt.Fprintf(&b, "/-- `%s`: format %s -/\n", it[1], strconv.Quote(format))
		fmt.Fprintf(&b, "def %s : List UInt8 := %s\n", it[0], partBytes(format))
		fmt.Fprintf(&b, "def %sText : String := %s\n", it[0], goast.LeanString(format))
		fmt.Fprintf(&b, "def %sArgs : List String := %s\n", it[0], goast.LeanStringList(args))
	}

	// --- validity predicates -------------------------------------------------------------------
	for _, it := range [][2]string{
		{"isValidDefault", "defaultPartition.IsValidIntermediateKeyID"},
		{"isValidSuffixed", "suffixedPartition.IsValidIntermediateKeyID"},
	} {
		fd, err := pf.Func(it[1])
		if err != nil {
			return nil, err
		}
		ret, err := partSingleReturn(fd)
		if err != nil {
			return nil, fmt.Errorf("%s: %v", it[1], err)
		}
		fmt.Fprintf(&b, "def %sReturn : String := %s\n", it[0], goast.LeanString(ret))
		fmt.Fprintf(&b, "def %sSkeleton : List String := %s\n", it[0], goast.LeanStringList(partNormSkeleton(goast.Skeleton(fd))))
	}

	// --- constructors ----------------------------------------------------------------------------
	for _, it := range [][2]string{
		{"newPartitionFields", "newPartition"},
		{"newSuffixedPartitionFields", "newSuffixedPartition"},
	} {
		fd, err := pf.Func(it[1])
		if err != nil {
			return nil, err
		}
		fmt.Fprintf(&b, "def %s : List String := %s\n", it[0], goast.LeanStringList(partParamsAndFieldsIn(pf, fd)))
	}

	// --- session.go ------------------------------------------------------------------------------
	gs, err := sf.Func("SessionFactory.GetSession")
	if err != nil {
		return nil, err
	}
	fmt.Fprintf(&b, "def getSessionSkeleton : List String := %s\n", goast.LeanStringList(goast.Skeleton(gs)))
	np, err := sf.Func("SessionFactory.newPartition")
	if err != nil {
		return nil, err
	}
	fmt.Fprintf(&b, "def newPartitionSkeleton : List String := %s\n", goast.LeanStringList(goast.Skeleton(np)))
	fmt.Fprintf(&b, "def newPartitionReturns : List String := %s\n", goast.LeanStringList(partReturns(np)))
	ns, err := sf.Func("newSession")
	if err != nil {
		return nil, err
	}
	fmt.Fprintf(&b, "def newSessionPartitionField : List String := %s\n", goast.LeanStringList(partFieldValues(ns, "partition")))

	// --- envelope.go -----------------------------------------------------------------------------
	dd, err := ef.Func("envelopeEncryption.DecryptDataRowRecord")
	if err != nil {
		return nil, err
	}
	sk := goast.Skeleton(dd)
	cut := -1
	for i, t := range sk {
		if strings.Contains(t, "GetOrLoad") {
			cut = i
			break
		}
	}
	if cut < 0 {
		return nil, fmt.Errorf("DecryptDataRowRecord: no key cache lookup (GetOrLoad) found in the skeleton")
	}
	fmt.Fprintf(&b, "/-- skeleton of DecryptDataRowRecord up to and including the first key-cache lookup -/\n")
	fmt.Fprintf(&b, "def decryptGuardSkeleton : List String := %s\n", goast.LeanStringList(sk[:cut+1]))
	ep, err := ef.Func("envelopeEncryption.EncryptPayload")
	if err != nil {
		return nil, err
	}
	fmt.Fprintf(&b, "def encryptParentKeyMetaID : List String := %s\n", goast.LeanStringList(partFieldValues(ep, "ID")))

	// --- key_cache.go ----------------------------------------------------------------------------
	ck, err := kf.Func("cacheKey")
	if err != nil {
		return nil, err
	}
	ret, err := partSingleReturn(ck)
	if err != nil {
		return nil, fmt.Errorf("cacheKey: %v", err)
	}
	fmt.Fprintf(&b, "def cacheKeyReturn : String := %s\n", goast.LeanString(ret))
	fmt.Fprintf(&b, "def cacheKeyParams : List String := %s\n", goast.LeanStringList(partParamsAndFields(ck)))

	b.WriteString("end AsherahVerif.Generated.Partition\n")
	return map[string]string{"Partition.lean": b.String()}, nil
}

// partSprintf: the function body must be exactly `return fmt.Sprintf("<lit>", args…)`.
func partSprintf(fd *ast.FuncDecl) (string, []string, error) {
	if fd.Body == nil || len(fd.Body.List) != 1 {
		return "", nil, fmt.Errorf("body is not a single statement")
	}
	rs, ok := fd.Body.List[0].(*ast.ReturnStmt)
	if !ok || len(rs.Results) != 1 {
		return "", nil, fmt.Errorf("body is not a single-value return")
	}
	call, ok := rs.Results[0].(*ast.CallExpr)
	if !ok || goast.ExprString(call.Fun) != "fmt.Sprintf" || len(call.Args) < 1 {
		return "", nil, fmt.Errorf("return value is not a fmt.Sprintf call: %s", goast.ExprString(rs.Results[0]))
	}
	lit, ok := call.Args[0].(*ast.BasicLit)
	if !ok || lit.Kind != token.STRING {
		return "", nil, fmt.Errorf("format is not a string literal")
	}
	format, err := strconv.Unquote(lit.Value)
	if err != nil {
		return "", nil, err
	}
	var args []string
	for _, a := range call.Args[1:] {
		args = append(args, goast.ExprString(a))
	}
	return format, args, nil
}

// partSingleReturn: the body must be exactly one `return <expr>`; the expression is printed compactly.
func partSingleReturn(fd *ast.FuncDecl) (string, error) {
	if fd.Body == nil || len(fd.Body.List) != 1 {
		return "", fmt.Errorf("body is not a single statement")
	}
	rs, ok := fd.Body.List[0].(*ast.ReturnStmt)
	if !ok || len(rs.Results) != 1 {
		return "", fmt.Errorf("body is not a single-value return")
	}
	return goast.ExprString(partNorm(rs.Results[0])), nil
}

// partNorm rewrites semantically identical spellings to one form, so that a harmless respelling does
// not break the `Generated = Expected` obligations: strings.HasPrefix(a, b) ≡ strings.Index(a, b) == 0.
func partNorm(e ast.Expr) ast.Expr {
	switch x := e.(type) {
	case *ast.ParenExpr:
		return &ast.ParenExpr{X: partNorm(x.X)}
	case *ast.UnaryExpr:
		return &ast.UnaryExpr{Op: x.Op, X: partNorm(x.X)}
	case *ast.BinaryExpr:
		return &ast.BinaryExpr{X: partNorm(x.X), Op: x.Op, Y: partNorm(x.Y)}
	case *ast.CallExpr:
		args := make([]ast.Expr, len(x.Args))
		for i, a := range x.Args {
			args[i] = partNorm(a)
		}
		if goast.ExprString(x.Fun) == "strings.HasPrefix" && len(args) == 2 {
			idx := &ast.CallExpr{Fun: &ast.SelectorExpr{X: ast.NewIdent("strings"), Sel: ast.NewIdent("Index")}, Args: args}
			return &ast.BinaryExpr{X: idx, Op: token.EQL, Y: &ast.BasicLit{Kind: token.INT, Value: "0"}}
		}
		return &ast.CallExpr{Fun: x.Fun, Args: args, Ellipsis: x.Ellipsis}
	}
	return e
}

func partNormSkeleton(sk []string) []string {
	out := make([]string, len(sk))
	for i, t := range sk {
		out[i] = strings.ReplaceAll(t, "strings.HasPrefix", "strings.Index")
	}
	return out
}

// partReturns: all return statements of a function, in source order, printed compactly
// (composite literals and calls with their arguments).
func partReturns(fd *ast.FuncDecl) []string {
	var out []string
	ast.Inspect(fd.Body, func(n ast.Node) bool {
		if rs, ok := n.(*ast.ReturnStmt); ok {
			var r []string
			for _, x := range rs.Results {
				r = append(r, goast.ExprString(x))
			}
			out = append(out, strings.Join(r, ","))
		}
		return true
	})
	return out
}

// partParamsAndFields: "param:<name>" for every parameter in order, then "<path>.<field>=<expr>" for
// every key/value of the (nested) composite literals in the body, in source order.
func partParamsAndFields(fd *ast.FuncDecl) []string { return partParamsAndFieldsIn(nil, fd) }

// partCtorLiteral: if `e` is a call g(a1..an) of a function of the same file whose body is exactly
// `return T{...}`, the literal and the substitution parameter ↦ printed argument (a constructor
// delegating to another constructor is the same field mapping as the inlined literal).
func partCtorLiteral(pf *goast.File, e ast.Expr) (*ast.CompositeLit, map[string]string) {
	call, ok := e.(*ast.CallExpr)
	if !ok || pf == nil {
		return nil, nil
	}
	id, ok := call.Fun.(*ast.Ident)
	if !ok {
		return nil, nil
	}
	g, err := pf.Func(id.Name)
	if err != nil || g.Body == nil || len(g.Body.List) != 1 {
		return nil, nil
	}
	rs, ok := g.Body.List[0].(*ast.ReturnStmt)
	if !ok || len(rs.Results) != 1 {
		return nil, nil
	}
	cl, ok := rs.Results[0].(*ast.CompositeLit)
	if !ok {
		return nil, nil
	}
	var params []string
	for _, p := range g.Type.Params.List {
		for _, n := range p.Names {
			params = append(params, n.Name)
		}
	}
	if len(params) != len(call.Args) {
		return nil, nil
	}
	sub := map[string]string{}
	for i, a := range call.Args {
		sub[params[i]] = goast.ExprString(a)
	}
	return cl, sub
}

func partParamsAndFieldsIn(pf *goast.File, fd *ast.FuncDecl) []string {
	var out []string
	for _, p := range fd.Type.Params.List {
		for _, n := range p.Names {
			out = append(out, "param:"+n.Name+":"+goast.ExprString(p.Type))
		}
	}
	var walk func(prefix string, e ast.Expr, sub map[string]string)
	val := func(e ast.Expr, sub map[string]string) string {
		if id, ok := e.(*ast.Ident); ok && sub != nil {
			if v, ok := sub[id.Name]; ok {
				return v
			}
		}
		return goast.ExprString(e)
	}
	walk = func(prefix string, e ast.Expr, sub map[string]string) {
		cl, ok := e.(*ast.CompositeLit)
		if !ok {
			return
		}
		tn := goast.ExprString(cl.Type)
		for _, el := range cl.Elts {
			kv, ok := el.(*ast.KeyValueExpr)
			if !ok {
				out = append(out, prefix+tn+".?="+val(el, sub))
				continue
			}
			if _, nested := kv.Value.(*ast.CompositeLit); nested {
				walk(prefix+tn+"."+goast.ExprString(kv.Key)+">", kv.Value, sub)
			} else if inner, isub := partCtorLiteral(pf, kv.Value); inner != nil && sub == nil {
				walk(prefix+tn+"."+goast.ExprString(kv.Key)+">", inner, isub)
			} else {
				out = append(out, prefix+tn+"."+goast.ExprString(kv.Key)+"="+val(kv.Value, sub))
			}
		}
	}
	if fd.Body != nil {
		ast.Inspect(fd.Body, func(n ast.Node) bool {
			if cl, ok := n.(*ast.CompositeLit); ok {
				walk("", cl, nil)
				return false
			}
			return true
		})
	}
	return out
}

// partFieldValues: the value expressions of every `key: value` element with that key inside the
// function's composite literals, in source order.
func partFieldValues(fd *ast.FuncDecl, key string) []string {
	var out []string
	ast.Inspect(fd.Body, func(n ast.Node) bool {
		if kv, ok := n.(*ast.KeyValueExpr); ok {
			if id, ok := kv.Key.(*ast.Ident); ok && id.Name == key {
				out = append(out, goast.ExprString(kv.Value))
			}
		}
		return true
	})
	return out
}

func partBytes(s string) string {
	var q []string
	for i := 0; i < len(s); i++ {
		q = append(q, strconv.Itoa(int(s[i])))
	}
	return "[" + strings.Join(q, ", ") + "]"
}
