package main

import (
	"fmt"
	"go/ast"
	"os"
	"path/filepath"
	"regexp"
	"sort"
	"strings"

	"verifharness/internal/goast"
)

func init() { register("server", extractServer) }

// Facts of the gRPC sidecar C19's model (lean/AsherahVerif/Model/Server.lean) mirrors:
// skeletons of the stream loop, the dispatch and the four handler methods; the case types of the
// dispatch's type switch; whether Encrypt/Decrypt/Close test `h.session == nil` before using the
// session (derived from the skeletons: the model's `Guards`); the proto field table.
func extractServer(repo string) (map[string]string, error) {
	f, err := goast.Parse(filepath.Join(repo, "server/go/pkg/server/server.go"))
	if err != nil {
		return nil, err
	}
	var b strings.Builder
	b.WriteString("namespace AsherahVerif.Generated.Server\n")
	skel := map[string][]string{}
	for _, fn := range []struct{ lean, goName string }{
		{"session", "AppEncryption.Session"},
		{"newHandler", "streamer.NewHandler"},
		{"stream", "streamer.Stream"},
		{"handleRequest", "streamer.handleRequest"},
		{"getSession", "defaultHandler.GetSession"},
		{"encrypt", "defaultHandler.Encrypt"},
		{"decrypt", "defaultHandler.Decrypt"},
		{"close", "defaultHandler.Close"},
		{"fromProtobufDRR", "fromProtobufDRR"},
		{"toProtobufDRR", "toProtobufDRR"},
	} {
		fd, err := f.Func(fn.goName)
		if err != nil {
			return nil, err
		}
		sk := goast.Skeleton(fd)
		skel[fn.lean] = sk
		fmt.Fprintf(&b, "/-- %s -/\ndef %s : List String := %s\n", fn.goName, fn.lean, goast.LeanStringList(sk))
		fmt.Fprintf(&b, "def %sReturns : List String := %s\n", fn.lean, goast.LeanStringList(returnExprs(fd)))
		switch fn.lean {
		case "toProtobufDRR", "fromProtobufDRR", "encrypt", "decrypt":
			fmt.Fprintf(&b, "/-- the composite literals %s returns, flattened to field-path:value -/\ndef %sFields : List String := %s\n",
				fn.goName, fn.lean, goast.LeanStringList(literalFields(fd)))
		}
		if fn.lean == "toProtobufDRR" {
			fmt.Fprintf(&b, "/-- field paths toProtobufDRR reads off the SDK's record (each pointer hop is a nil dereference if absent) -/\ndef toProtobufDRRReads : List String := %s\n",
				goast.LeanStringList(selectorPaths(fd, "drr")))
		}
		if fn.lean == "handleRequest" {
			cases, err := typeSwitchCases(fd)
			if err != nil {
				return nil, err
			}
			fmt.Fprintf(&b, "/-- subject and case types of the type switch in handleRequest -/\ndef handleRequestCases : List String := %s\n",
				goast.LeanStringList(cases))
		}
	}
	// error texts of the two protocol responses
	for _, v := range []struct{ lean, goName string }{
		{"uninitializedText", "UninitializedSessionResponse"},
		{"alreadyInitializedText", "SessionAlreadyInitializedResponse"},
	} {
		c, err := f.Const(v.goName)
		if err != nil {
			return nil, err
		}
		fmt.Fprintf(&b, "def %s : String := %s\n", v.lean, goast.LeanString(c))
	}
	// derived: does the method test h.session == nil (and leave) before the first use of h.session?
	lb := func(v bool) string {
		if v {
			return "true"
		}
		return "false"
	}
	eg := guarded(skel["encrypt"], "h.session.Encrypt")
	dg := guarded(skel["decrypt"], "h.session.Decrypt")
	cg := guarded(skel["close"], "h.session.Close")
	fmt.Fprintf(&b, "/-- derived: `if h.session == nil { return … }` precedes the first use of h.session -/\n")
	fmt.Fprintf(&b, "def encGuard : Bool := %s\ndef decGuard : Bool := %s\ndef closeGuard : Bool := %s\n", lb(eg), lb(dg), lb(cg))
	fmt.Fprintf(&b, "def nilGuard : Bool := %s\n", lb(eg && dg && cg))

	fields, err := protoFields(filepath.Join(repo, "server/protos/appencryption.proto"))
	if err != nil {
		return nil, err
	}
	b.WriteString("/-- appencryption.proto: (message, field, number, type, oneof or \"\") -/\n")
	b.WriteString("def protoFields : List (String × String × Nat × String × String) := [\n")
	for i, x := range fields {
		sep := ","
		if i == len(fields)-1 {
			sep = ""
		}
		fmt.Fprintf(&b, "  (%s, %s, %s, %s, %s)%s\n", goast.LeanString(x[0]), goast.LeanString(x[1]), x[2],
			goast.LeanString(x[3]), goast.LeanString(x[4]), sep)
	}
	b.WriteString("]\n")
	// --- option wiring: which command-line option feeds which constructor option --------------------
	var wiring []string
	for _, name := range []string{"NewMetastore", "NewKMS", "NewAppEncryption", "NewCryptoPolicy"} {
		fd, err := f.Func(name)
		if err != nil {
			return nil, err
		}
		for _, u := range optionUses(fd) {
			wiring = append(wiring, name+": "+u)
		}
	}
	fmt.Fprintf(&b, "/-- every use of a field of *Options in the constructors of server.go, in source order -/\ndef optionWiring : List String := %s\n", goast.LeanStringList(wiring))
	b.WriteString("end AsherahVerif.Generated.Server\n")
	return map[string]string{"Server.lean": b.String()}, nil
}

// guarded: the skeleton contains `if(h.session==nil){ … return }` closed before the first `use` token.
func guarded(sk []string, use string) bool {
	for i, t := range sk {
		if t == use {
			return false
		}
		if t == "if(h.session==nil){" {
			// the guarded block must leave the function and must not use the session
			for j := i + 1; j < len(sk); j++ {
				if sk[j] == use {
					return false
				}
				if sk[j] == "}" {
					return j > i+1 && strings.HasPrefix(sk[j-1], "return")
				}
			}
			return false
		}
	}
	return false
}

func typeSwitchCases(fd *ast.FuncDecl) ([]string, error) {
	var out []string
	found := false
	ast.Inspect(fd.Body, func(n ast.Node) bool {
		ts, ok := n.(*ast.TypeSwitchStmt)
		if !ok || found {
			return true
		}
		found = true
		switch a := ts.Assign.(type) {
		case *ast.ExprStmt:
			out = append(out, "switch:"+typeSwitchSubject(a.X))
		case *ast.AssignStmt:
			out = append(out, "switch:"+typeSwitchSubject(a.Rhs[0]))
		}
		for _, c := range ts.Body.List {
			cc := c.(*ast.CaseClause)
			if cc.List == nil {
				out = append(out, "default")
				continue
			}
			var ts []string
			for _, e := range cc.List {
				ts = append(ts, goast.ExprString(e))
			}
			out = append(out, "case:"+strings.Join(ts, ","))
		}
		return false
	})
	if !found {
		return nil, fmt.Errorf("%s: no type switch", fd.Name.Name)
	}
	return out, nil
}

func typeSwitchSubject(e ast.Expr) string {
	if ta, ok := e.(*ast.TypeAssertExpr); ok && ta.Type == nil {
		return goast.ExprString(ta.X) + ".(type)"
	}
	return goast.ExprString(e)
}

// returnExprs lists the result expressions of every return statement, in source order
// (the skeleton only records that a return happens; C19 depends on WHICH response is returned).
func returnExprs(fd *ast.FuncDecl) []string {
	var out []string
	ast.Inspect(fd.Body, func(n ast.Node) bool {
		if r, ok := n.(*ast.ReturnStmt); ok {
			var xs []string
			for _, e := range r.Results {
				xs = append(xs, goast.ExprString(e))
			}
			out = append(out, strings.Join(xs, ","))
		}
		return true
	})
	return out
}

// literalFields flattens the composite literals in the return statements: "Key.ParentKeyMeta.KeyId:drr.Key.ParentKeyMeta.ID".
func literalFields(fd *ast.FuncDecl) []string {
	var out []string
	var flat func(prefix string, e ast.Expr)
	flat = func(prefix string, e ast.Expr) {
		if u, ok := e.(*ast.UnaryExpr); ok {
			e = u.X
		}
		cl, ok := e.(*ast.CompositeLit)
		if !ok {
			out = append(out, prefix+":"+goast.ExprString(e))
			return
		}
		if len(cl.Elts) == 0 {
			out = append(out, prefix+":"+goast.ExprString(cl))
		}
		for _, el := range cl.Elts {
			kv, ok := el.(*ast.KeyValueExpr)
			if !ok {
				out = append(out, prefix+":"+goast.ExprString(el))
				continue
			}
			p := goast.ExprString(kv.Key)
			if prefix != "" {
				p = prefix + "." + p
			}
			flat(p, kv.Value)
		}
	}
	ast.Inspect(fd.Body, func(n ast.Node) bool {
		if r, ok := n.(*ast.ReturnStmt); ok {
			for _, e := range r.Results {
				x := e
				if u, ok := x.(*ast.UnaryExpr); ok {
					x = u.X
				}
				if _, ok := x.(*ast.CompositeLit); ok {
					flat("", e)
				}
			}
		}
		return true
	})
	return out
}

// selectorPaths lists the maximal selector chains rooted at identifier root, sorted, without duplicates.
func selectorPaths(fd *ast.FuncDecl, root string) []string {
	seen := map[string]bool{}
	var walk func(n ast.Node) bool
	walk = func(n ast.Node) bool {
		if sel, ok := n.(*ast.SelectorExpr); ok {
			var x ast.Expr = sel
			for {
				s, ok := x.(*ast.SelectorExpr)
				if !ok {
					break
				}
				x = s.X
			}
			if id, ok := x.(*ast.Ident); ok && id.Name == root {
				seen[goast.ExprString(sel)] = true
				return false
			}
		}
		return true
	}
	ast.Inspect(fd.Body, walk)
	var out []string
	for k := range seen {
		out = append(out, k)
	}
	sort.Strings(out)
	return out
}

var (
	reMsg   = regexp.MustCompile(`^message\s+(\w+)\s*\{`)
	reOneof = regexp.MustCompile(`^oneof\s+(\w+)\s*\{`)
	reField = regexp.MustCompile(`^(repeated\s+)?([\w.]+)\s+(\w+)\s*=\s*(\d+)\s*;`)
)

// protoFields parses message/field names and numbers of a proto3 file (flat messages, oneofs).
func protoFields(path string) ([][5]string, error) {
	data, err := os.ReadFile(path)
	if err != nil {
		return nil, err
	}
	var out [][5]string
	msg, oneof := "", ""
	for _, raw := range strings.Split(string(data), "\n") {
		l := raw
		if i := strings.Index(l, "//"); i >= 0 {
			l = l[:i]
		}
		l = strings.TrimSpace(l)
		switch {
		case l == "":
		case reMsg.MatchString(l):
			msg = reMsg.FindStringSubmatch(l)[1]
		case msg != "" && reOneof.MatchString(l):
			oneof = reOneof.FindStringSubmatch(l)[1]
		case l == "}":
			if oneof != "" {
				oneof = ""
			} else {
				msg = ""
			}
		case msg != "" && reField.MatchString(l):
			m := reField.FindStringSubmatch(l)
			out = append(out, [5]string{msg, m[3], m[4], strings.TrimSpace(m[1] + m[2]), oneof})
		}
	}
	if len(out) == 0 {
		return nil, fmt.Errorf("%s: no message fields found", path)
	}
	return out, nil
}

// optionUses: every call, condition, switch tag and assignment of the function that mentions a field
// of its *Options parameter, printed compactly, in source order (a flag wired to the wrong option is
// invisible to the handler tests: the sidecar still round-trips its own records).
func optionUses(fd *ast.FuncDecl) []string {
	param := ""
	if fd.Type.Params != nil {
		for _, p := range fd.Type.Params.List {
			if strings.HasSuffix(goast.ExprString(p.Type), "Options") && len(p.Names) == 1 {
				param = p.Names[0].Name
			}
		}
	}
	if param == "" || fd.Body == nil {
		return nil
	}
	mentions := func(e ast.Expr) bool {
		found := false
		ast.Inspect(e, func(n ast.Node) bool {
			if se, ok := n.(*ast.SelectorExpr); ok {
				if id, ok := se.X.(*ast.Ident); ok && id.Name == param {
					found = true
				}
			}
			return !found
		})
		return found
	}
	var out []string
	ast.Inspect(fd.Body, func(n ast.Node) bool {
		switch t := n.(type) {
		case *ast.CallExpr:
			for _, a := range t.Args {
				if _, isCall := a.(*ast.CallExpr); !isCall && mentions(a) {
					out = append(out, goast.ExprString(t))
					break
				}
			}
		case *ast.KeyValueExpr:
			// fields of composite literals (appencryption.Config{Service: options.ServiceName, …})
			if _, isCall := t.Value.(*ast.CallExpr); !isCall && mentions(t.Value) {
				out = append(out, "field "+goast.ExprString(t.Key)+"="+goast.ExprString(t.Value))
			}
		case *ast.IfStmt:
			if mentions(t.Cond) {
				out = append(out, "if "+goast.ExprString(t.Cond))
			}
		case *ast.SwitchStmt:
			if t.Tag != nil && mentions(t.Tag) {
				out = append(out, "switch "+goast.ExprString(t.Tag))
			}
		case *ast.AssignStmt:
			for i, r := range t.Rhs {
				if _, isCall := r.(*ast.CallExpr); !isCall && mentions(r) && i < len(t.Lhs) {
					out = append(out, goast.ExprString(t.Lhs[i])+"="+goast.ExprString(r))
				}
			}
		}
		return true
	})
	return out
}
