package main

import (
	"fmt"
	"go/ast"
	"go/token"
	"path/filepath"
	"strconv"
	"strings"

	"verifharness/internal/goast"
)

func init() { register("metastore", extractMetastore) }

// Facts the C13 model (lean/AsherahVerif/Model/Metastore.lean) takes from the four metastore
// implementations: SQL statements and db-type constants, `q`, struct tags, DynamoDB attribute names
// and request literals (fields of the *Input composite literals), and the skeletons of the
// functions whose shape the model mirrors.

type msOut struct{ b strings.Builder }

func (o *msOut) str(name, v string) {
	fmt.Fprintf(&o.b, "def %s : String := %s\n", name, goast.LeanString(v))
}
func (o *msOut) list(name string, v []string) {
	fmt.Fprintf(&o.b, "def %s : List String := %s\n", name, goast.LeanStringList(v))
}
func (o *msOut) pairs(name string, v [][2]string) {
	var p []string
	for _, kv := range v {
		p = append(p, "("+goast.LeanString(kv[0])+", "+goast.LeanString(kv[1])+")")
	}
	fmt.Fprintf(&o.b, "def %s : List (String × String) := [%s]\n", name, strings.Join(p, ", "))
}
func (o *msOut) optBool(name, expr string) {
	v := "none"
	switch expr {
	case "aws.Bool(true)":
		v = "some true"
	case "aws.Bool(false)":
		v = "some false"
	}
	fmt.Fprintf(&o.b, "def %s : Option Bool := %s\n", name, v)
}
func (o *msOut) optInt(name, expr string) {
	v := "none"
	for _, fn := range []string{"aws.Int64(", "aws.Int32("} {
		if strings.HasPrefix(expr, fn) && strings.HasSuffix(expr, ")") {
			if n, err := strconv.ParseInt(expr[len(fn):len(expr)-1], 10, 64); err == nil {
				if n < 0 {
					v = fmt.Sprintf("some (%d)", n)
				} else {
					v = fmt.Sprintf("some %d", n)
				}
			}
		}
	}
	fmt.Fprintf(&o.b, "def %s : Option Int := %s\n", name, v)
}

// msConstString evaluates a constant string expression: literals, package constants, `+`.
func msConstString(f *goast.File, e ast.Expr) (string, error) {
	switch t := e.(type) {
	case *ast.BasicLit:
		if t.Kind == token.STRING {
			return strconv.Unquote(t.Value)
		}
	case *ast.Ident:
		return msConst(f, t.Name)
	case *ast.ParenExpr:
		return msConstString(f, t.X)
	case *ast.BinaryExpr:
		if t.Op == token.ADD {
			l, err := msConstString(f, t.X)
			if err != nil {
				return "", err
			}
			r, err := msConstString(f, t.Y)
			if err != nil {
				return "", err
			}
			return l + r, nil
		}
	case *ast.CallExpr: // aws.String(<const>) and conversions such as SQLMetastoreDBType("x")
		if len(t.Args) == 1 {
			return msConstString(f, t.Args[0])
		}
	}
	return "", fmt.Errorf("%s: not a constant string expression: %s", f.Path, goast.ExprString(e))
}

func msConst(f *goast.File, name string) (string, error) {
	for _, d := range f.AST.Decls {
		g, ok := d.(*ast.GenDecl)
		if !ok || g.Tok != token.CONST {
			continue
		}
		for _, s := range g.Specs {
			vs := s.(*ast.ValueSpec)
			for i, n := range vs.Names {
				if n.Name == name && i < len(vs.Values) {
					return msConstString(f, vs.Values[i])
				}
			}
		}
	}
	return "", fmt.Errorf("%s: constant %s not found", f.Path, name)
}

// msCompositeFields returns field -> value expression of the first composite literal of type typ
// (e.g. "dynamodb.GetItemInput") inside function fn.
func msCompositeFields(f *goast.File, fn, typ string) ([][2]string, *ast.CompositeLit, error) {
	fd, err := f.Func(fn)
	if err != nil {
		return nil, nil, err
	}
	var found *ast.CompositeLit
	ast.Inspect(fd.Body, func(n ast.Node) bool {
		cl, ok := n.(*ast.CompositeLit)
		if ok && found == nil && cl.Type != nil && goast.ExprString(cl.Type) == typ {
			found = cl
			return false
		}
		return true
	})
	if found == nil {
		return nil, nil, fmt.Errorf("%s: no %s literal in %s", f.Path, typ, fn)
	}
	var out [][2]string
	for _, el := range found.Elts {
		kv, ok := el.(*ast.KeyValueExpr)
		if !ok {
			return nil, nil, fmt.Errorf("%s: positional %s literal in %s", f.Path, typ, fn)
		}
		out = append(out, [2]string{goast.ExprString(kv.Key), msValueString(kv.Value)})
	}
	return out, found, nil
}

// msValueString prints a field value; map literals are printed with their entries.
func msValueString(e ast.Expr) string {
	if cl, ok := e.(*ast.CompositeLit); ok {
		var p []string
		for _, el := range cl.Elts {
			if kv, ok := el.(*ast.KeyValueExpr); ok {
				p = append(p, goast.ExprString(kv.Key)+":"+msValueString(kv.Value))
			} else {
				p = append(p, msValueString(el))
			}
		}
		t := ""
		if cl.Type != nil {
			t = goast.ExprString(cl.Type)
			if _, isMap := cl.Type.(*ast.MapType); isMap {
				t = "map"
			}
		}
		return t + "{" + strings.Join(p, ",") + "}"
	}
	if u, ok := e.(*ast.UnaryExpr); ok && u.Op == token.AND {
		return "&" + msValueString(u.X)
	}
	return goast.ExprString(e)
}

func msField(fields [][2]string, name string) string {
	for _, kv := range fields {
		if kv[0] == name {
			return kv[1]
		}
	}
	return ""
}

// msCallArgs returns the argument expressions of the first call of callee inside fn.
func msCallArgs(f *goast.File, fn, callee string) ([]string, error) {
	fd, err := f.Func(fn)
	if err != nil {
		return nil, err
	}
	var out []string
	found := false
	ast.Inspect(fd.Body, func(n ast.Node) bool {
		c, ok := n.(*ast.CallExpr)
		if ok && !found && goast.ExprString(c.Fun) == callee {
			found = true
			for _, a := range c.Args {
				out = append(out, goast.ExprString(a))
			}
			return false
		}
		return true
	})
	if !found {
		return nil, fmt.Errorf("%s: no call of %s in %s", f.Path, callee, fn)
	}
	return out, nil
}

func msSkeleton(f *goast.File, fn string) ([]string, error) {
	fd, err := f.Func(fn)
	if err != nil {
		return nil, err
	}
	return goast.Skeleton(fd), nil
}

// msReturns lists the return statements' result expressions of fn (in source order).
func msReturns(f *goast.File, fn string) ([]string, error) {
	fd, err := f.Func(fn)
	if err != nil {
		return nil, err
	}
	var out []string
	ast.Inspect(fd.Body, func(n ast.Node) bool {
		if _, ok := n.(*ast.FuncLit); ok {
			return false
		}
		if r, ok := n.(*ast.ReturnStmt); ok {
			var p []string
			for _, x := range r.Results {
				s := goast.ExprString(x)
				if c, ok := x.(*ast.CallExpr); ok && strings.HasPrefix(goast.ExprString(c.Fun), "fmt.Errorf") {
					s = "fmt.Errorf"
				}
				p = append(p, s)
			}
			out = append(out, strings.Join(p, ","))
		}
		return true
	})
	return out, nil
}

// msAssigns lists every assignment / short variable declaration of fn as "lhs=rhs" (compact).
func msAssigns(f *goast.File, fn string) ([]string, error) {
	fd, err := f.Func(fn)
	if err != nil {
		return nil, err
	}
	var out []string
	ast.Inspect(fd.Body, func(n ast.Node) bool {
		if a, ok := n.(*ast.AssignStmt); ok {
			var l, r []string
			for _, x := range a.Lhs {
				l = append(l, goast.ExprString(x))
			}
			for _, x := range a.Rhs {
				r = append(r, goast.ExprString(x))
			}
			out = append(out, strings.Join(l, ",")+a.Tok.String()+strings.Join(r, ","))
		}
		return true
	})
	return out, nil
}

// msFuncLitReturns lists the result expressions returned by function literals inside fn.
func msFuncLitReturns(f *goast.File, fn string) ([]string, error) {
	fd, err := f.Func(fn)
	if err != nil {
		return nil, err
	}
	var out []string
	ast.Inspect(fd.Body, func(n ast.Node) bool {
		if fl, ok := n.(*ast.FuncLit); ok {
			ast.Inspect(fl.Body, func(m ast.Node) bool {
				if r, ok := m.(*ast.ReturnStmt); ok {
					var p []string
					for _, x := range r.Results {
						p = append(p, goast.ExprString(x))
					}
					out = append(out, strings.Join(p, ","))
				}
				return true
			})
			return false
		}
		return true
	})
	return out, nil
}

// msCanonFile renames, in every function of the file, the receiver to `r`, parameters to `p0,p1,…` and
// local variables to `l0,l1,…` (in order of declaration), so that the extracted expressions do not
// depend on the names a programmer chose: renaming a local is not a change of shape.
func msCanonFile(f *goast.File) {
	for _, d := range f.AST.Decls {
		if fd, ok := d.(*ast.FuncDecl); ok && fd.Body != nil {
			msCanon(fd)
		}
	}
}

func msCanon(fd *ast.FuncDecl) {
	names := map[string]string{}
	np, nl := 0, 0
	add := func(id *ast.Ident, param bool) {
		if id == nil || id.Name == "_" {
			return
		}
		if _, ok := names[id.Name]; ok {
			return
		}
		if param {
			names[id.Name] = fmt.Sprintf("p%d", np)
			np++
		} else {
			names[id.Name] = fmt.Sprintf("l%d", nl)
			nl++
		}
	}
	fields := func(fl *ast.FieldList, param bool) {
		if fl == nil {
			return
		}
		for _, f := range fl.List {
			for _, n := range f.Names {
				add(n, param)
			}
		}
	}
	if fd.Recv != nil {
		for _, f := range fd.Recv.List {
			for _, n := range f.Names {
				if n.Name != "_" {
					names[n.Name] = "r"
				}
			}
		}
	}
	fields(fd.Type.Params, true)
	fields(fd.Type.Results, false)
	ast.Inspect(fd.Body, func(n ast.Node) bool {
		switch t := n.(type) {
		case *ast.AssignStmt:
			if t.Tok == token.DEFINE {
				for _, l := range t.Lhs {
					if id, ok := l.(*ast.Ident); ok {
						add(id, false)
					}
				}
			}
		case *ast.ValueSpec:
			for _, id := range t.Names {
				add(id, false)
			}
		case *ast.RangeStmt:
			if t.Tok == token.DEFINE {
				if id, ok := t.Key.(*ast.Ident); ok {
					add(id, false)
				}
				if id, ok := t.Value.(*ast.Ident); ok {
					add(id, false)
				}
			}
		case *ast.FuncLit:
			fields(t.Type.Params, false)
			fields(t.Type.Results, false)
		}
		return true
	})
	var walk func(n ast.Node) bool
	walk = func(n ast.Node) bool {
		switch t := n.(type) {
		case *ast.SelectorExpr:
			ast.Inspect(t.X, walk) // never the selected field/method name
			return false
		case *ast.KeyValueExpr:
			if _, isIdent := t.Key.(*ast.Ident); !isIdent {
				ast.Inspect(t.Key, walk)
			}
			ast.Inspect(t.Value, walk)
			return false
		case *ast.Ident:
			if c, ok := names[t.Name]; ok {
				t.Name = c
			}
		}
		return true
	}
	ast.Inspect(fd.Body, walk)
	ast.Inspect(fd.Type, walk)
}

type msErr struct{ err error }

func (e *msErr) s(v string, err error) string {
	if err != nil && e.err == nil {
		e.err = err
	}
	return v
}
func (e *msErr) l(v []string, err error) []string {
	if err != nil && e.err == nil {
		e.err = err
	}
	return v
}
func (e *msErr) p(v [][2]string, err error) [][2]string {
	if err != nil && e.err == nil {
		e.err = err
	}
	return v
}

func extractMetastore(repo string) (map[string]string, error) {
	base := filepath.Join(repo, "go/appencryption")
	parse := func(rel string) (*goast.File, error) { return goast.Parse(filepath.Join(base, rel)) }
	mem, err := parse("pkg/persistence/memory.go")
	if err != nil {
		return nil, err
	}
	sq, err := parse("pkg/persistence/sql.go")
	if err != nil {
		return nil, err
	}
	env, err := parse("envelope.go")
	if err != nil {
		return nil, err
	}
	d1, err := parse("plugins/aws-v1/persistence/dynamodb.go")
	if err != nil {
		return nil, err
	}
	d2, err := parse("plugins/aws-v2/dynamodb/metastore/metastore.go")
	if err != nil {
		return nil, err
	}
	for _, f := range []*goast.File{mem, sq, d1, d2} {
		msCanonFile(f)
	}
	e := &msErr{}
	o := &msOut{}
	o.b.WriteString("namespace AsherahVerif.Generated.Metastore\n")

	// ---- envelope.go
	o.pairs("ekrJsonTags", e.p(env.StructTags("EnvelopeKeyRecord", "json")))
	o.pairs("keyMetaJsonTags", e.p(env.StructTags("KeyMeta", "json")))

	// ---- memory.go
	for _, fn := range []string{"Load", "LoadLatest", "Store"} {
		o.list("mem"+fn+"Skeleton", e.l(msSkeleton(mem, "MemoryMetastore."+fn)))
	}
	for _, fn := range []string{"Load", "LoadLatest", "Store"} {
		o.list("mem"+fn+"Assigns", e.l(msAssigns(mem, "MemoryMetastore."+fn)))
		o.list("mem"+fn+"Returns", e.l(msReturns(mem, "MemoryMetastore."+fn)))
	}
	o.list("memLoadLatestSortLess", e.l(msFuncLitReturns(mem, "MemoryMetastore.LoadLatest")))
	o.str("memEnvelopesType", func() string {
		v := ""
		ast.Inspect(mem.AST, func(n ast.Node) bool {
			if ts, ok := n.(*ast.TypeSpec); ok && ts.Name.Name == "MemoryMetastore" {
				if st, ok := ts.Type.(*ast.StructType); ok {
					for _, fl := range st.Fields.List {
						for _, nm := range fl.Names {
							if nm.Name == "Envelopes" {
								if mt, ok := fl.Type.(*ast.MapType); ok {
									inner := "?"
									if mt2, ok := mt.Value.(*ast.MapType); ok {
										inner = "map[" + goast.ExprString(mt2.Key) + "]" + goast.ExprString(mt2.Value)
									}
									v = "map[" + goast.ExprString(mt.Key) + "]" + inner
								}
							}
						}
					}
				}
			}
			return true
		})
		return v
	}())

	// ---- sql.go
	o.str("sqlLoadKeyQuery", e.s(msConst(sq, "defaultLoadKeyQuery")))
	o.str("sqlStoreKeyQuery", e.s(msConst(sq, "defaultStoreKeyQuery")))
	o.str("sqlLoadLatestQuery", e.s(msConst(sq, "defaultLoadLatestQuery")))
	o.str("sqlPostgres", e.s(msConst(sq, "Postgres")))
	o.str("sqlOracle", e.s(msConst(sq, "Oracle")))
	o.str("sqlMySQL", e.s(msConst(sq, "MySQL")))
	o.str("sqlDefaultDBType", e.s(sq.Const("DefaultDBType")))
	o.str("sqlQrx", e.s(sq.Const("qrx")))
	o.list("sqlQSkeleton", e.l(msSkeleton(sq, "SQLMetastoreDBType.q")))
	o.list("sqlQReturns", e.l(msReturns(sq, "SQLMetastoreDBType.q")))
	o.list("sqlQAssigns", e.l(msAssigns(sq, "SQLMetastoreDBType.q")))
	o.list("sqlQReplacement", e.l(msFuncLitReturns(sq, "SQLMetastoreDBType.q")))
	o.list("sqlLoadAssigns", e.l(msAssigns(sq, "SQLMetastore.Load")))
	o.list("sqlStoreAssigns", e.l(msAssigns(sq, "SQLMetastore.Store")))
	o.list("sqlWithDBTypeSkeleton", e.l(msSkeleton(sq, "WithSQLMetastoreDBType")))
	o.pairs("sqlNewFields", func() [][2]string {
		f, _, err := msCompositeFields(sq, "NewSQLMetastore", "SQLMetastore")
		return e.p(f, err)
	}())
	o.list("sqlNewSkeleton", e.l(msSkeleton(sq, "NewSQLMetastore")))
	o.list("sqlParseEnvelopeSkeleton", e.l(msSkeleton(sq, "parseEnvelope")))
	o.list("sqlParseEnvelopeReturns", e.l(msReturns(sq, "parseEnvelope")))
	o.list("sqlLoadSkeleton", e.l(msSkeleton(sq, "SQLMetastore.Load")))
	o.list("sqlLoadArgs", e.l(msCallArgs(sq, "SQLMetastore.Load", "r.db.QueryRowContext")))
	o.list("sqlLoadLatestSkeleton", e.l(msSkeleton(sq, "SQLMetastore.LoadLatest")))
	o.list("sqlLoadLatestArgs", e.l(msCallArgs(sq, "SQLMetastore.LoadLatest", "r.db.QueryRowContext")))
	o.list("sqlStoreSkeleton", e.l(msSkeleton(sq, "SQLMetastore.Store")))
	o.list("sqlStoreArgs", e.l(msCallArgs(sq, "SQLMetastore.Store", "r.db.ExecContext")))
	o.list("sqlStoreReturns", e.l(msReturns(sq, "SQLMetastore.Store")))

	// ---- the two DynamoDB metastores
	type ddb struct {
		ns, recv                string
		f                       *goast.File
		get, put, query, decode string
	}
	for _, d := range []ddb{
		{"V1", "DynamoDBMetastore", d1, "dynamodb.GetItemInput", "dynamodb.PutItemInput", "dynamodb.QueryInput", "parseResult"},
		{"V2", "Metastore", d2, "dynamodb.GetItemInput", "dynamodb.PutItemInput", "dynamodb.QueryInput", "decodeItem"},
	} {
		fmt.Fprintf(&o.b, "namespace %s\n", d.ns)
		o.str("partitionKey", e.s(msConst(d.f, "partitionKey")))
		o.str("sortKey", e.s(msConst(d.f, "sortKey")))
		o.str("keyRecord", e.s(msConst(d.f, "keyRecord")))
		o.str("defaultTableName", e.s(msConst(d.f, "defaultTableName")))
		get, _, err := msCompositeFields(d.f, d.recv+".Load", d.get)
		o.pairs("getItemFields", e.p(get, err))
		o.optBool("getConsistentRead", msField(get, "ConsistentRead"))
		qf, _, err := msCompositeFields(d.f, d.recv+".LoadLatest", d.query)
		o.pairs("queryFields", e.p(qf, err))
		o.optBool("queryConsistentRead", msField(qf, "ConsistentRead"))
		o.optBool("queryScanIndexForward", msField(qf, "ScanIndexForward"))
		o.optInt("queryLimit", msField(qf, "Limit"))
		pf, lit, err := msCompositeFields(d.f, d.recv+".Store", d.put)
		o.pairs("putItemFields", e.p(pf, err))
		cond := ""
		if lit != nil {
			for _, el := range lit.Elts {
				if kv, ok := el.(*ast.KeyValueExpr); ok && goast.ExprString(kv.Key) == "ConditionExpression" {
					cond = e.s(msConstString(d.f, kv.Value))
				}
			}
		}
		o.str("conditionExpression", cond)
		o.list("loadSkeleton", e.l(msSkeleton(d.f, d.recv+".Load")))
		o.list("loadReturns", e.l(msReturns(d.f, d.recv+".Load")))
		o.list("loadLatestSkeleton", e.l(msSkeleton(d.f, d.recv+".LoadLatest")))
		o.list("loadLatestReturns", e.l(msReturns(d.f, d.recv+".LoadLatest")))
		o.list("storeSkeleton", e.l(msSkeleton(d.f, d.recv+".Store")))
		o.list("storeReturns", e.l(msReturns(d.f, d.recv+".Store")))
		o.list("decodeSkeleton", e.l(msSkeleton(d.f, d.decode)))
		o.list("decodeReturns", e.l(msReturns(d.f, d.decode)))
		o.list("withTableNameSkeleton", e.l(msSkeleton(d.f, "WithTableName")))
		if d.ns == "V1" {
			o.pairs("envelopeJsonTags", e.p(d.f.StructTags("DynamoDBEnvelope", "json")))
			o.pairs("envelopeFields", func() [][2]string {
				f, _, err := msCompositeFields(d.f, d.recv+".Store", "DynamoDBEnvelope")
				return e.p(f, err)
			}())
			o.list("regionSuffixSkeleton", e.l(msSkeleton(d.f, "WithDynamoDBRegionSuffix")))
			o.list("newSkeleton", e.l(msSkeleton(d.f, "NewDynamoDBMetastore")))
		} else {
			o.pairs("itemTags", e.p(d.f.StructTags("metastoreItem", "dynamodbav")))
			o.pairs("envelopeTags", e.p(d.f.StructTags("envelope", "dynamodbav")))
			o.pairs("keyMetaTags", e.p(d.f.StructTags("keyMeta", "dynamodbav")))
			o.pairs("envelopeFields", func() [][2]string {
				f, _, err := msCompositeFields(d.f, d.recv+".Store", "envelope")
				return e.p(f, err)
			}())
			o.pairs("decodeRecordFields", func() [][2]string {
				f, _, err := msCompositeFields(d.f, "decodeItem", "appencryption.EnvelopeKeyRecord")
				return e.p(f, err)
			}())
			o.list("newSkeleton", e.l(msSkeleton(d.f, "NewDynamoDB")))
		}
		fmt.Fprintf(&o.b, "end %s\n", d.ns)
	}
	o.b.WriteString("end AsherahVerif.Generated.Metastore\n")
	if e.err != nil {
		return nil, e.err
	}
	return map[string]string{"Metastore.lean": o.b.String()}, nil
}
