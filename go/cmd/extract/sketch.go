package main

import (
	"fmt"
	"go/ast"
	"go/token"
	"path/filepath"
	"sort"
	"strings"

	"verifharness/internal/goast"
)

func init() { register("sketch", extractSketch) }

// extractSketch TRANSLATES the index arithmetic of TinyLFU's frequency sketch and doorkeeper
// (pkg/cache/internal/sketch.go, filter.go) into Lean definitions over `BitVec 32` — Go's uint32
// operators map one to one (`>> << & | + - * / %`, wrap-around included) — and lists every slice index
// expression of the two files, so that C15b's memory-safety theorems are about what the code says now.
// The statements that size the slices (the two Init functions) are regenerated verbatim.
func extractSketch(repo string) (map[string]string, error) {
	dir := filepath.Join(repo, "go/appencryption/pkg/cache/internal")
	sk, err := goast.Parse(filepath.Join(dir, "sketch.go"))
	if err != nil {
		return nil, err
	}
	fl, err := goast.Parse(filepath.Join(dir, "filter.go"))
	if err != nil {
		return nil, err
	}
	var b strings.Builder
	b.WriteString("set_option linter.unusedVariables false\nnamespace AsherahVerif.Generated.Sketch\n")
	depth, err := sk.Const("sketchDepth")
	if err != nil {
		return nil, err
	}
	fmt.Fprintf(&b, "def sketchDepth : Nat := %s\n", depth)

	// position(h): idx = …, off = …
	pos, err := sk.Func("CountMinSketch.position")
	if err != nil {
		return nil, err
	}
	asg := assignments(pos)
	// the two named results, whatever they are called: first = word index, second = bit offset
	resNames := []string{"idx", "off"}
	if r := pos.Type.Results; r != nil {
		var ns []string
		for _, f := range r.List {
			for _, n := range f.Names {
				ns = append(ns, n.Name)
			}
		}
		if len(ns) == 2 {
			resNames = ns
		}
	}
	for i, v := range []string{"idx", "off"} {
		e, ok := asg[resNames[i]]
		if !ok {
			return nil, fmt.Errorf("sketch.go: position does not assign %s", resNames[i])
		}
		t, err := leanBV(e)
		if err != nil {
			return nil, err
		}
		fmt.Fprintf(&b, "def position_%s (h mask : BitVec 32) : BitVec 32 := %s\n", v, t)
	}
	// Add / Estimate: the hash handed to position and the shift handed to inc / val
	for _, spec := range [][3]string{{"CountMinSketch.Add", "inc", "add"}, {"CountMinSketch.Estimate", "val", "estimate"}} {
		fd, err := sk.Func(spec[0])
		if err != nil {
			return nil, err
		}
		pa := callArgs(fd, "position")
		sa := callArgs(fd, spec[1])
		if len(pa) != 1 || len(pa[0]) != 1 || len(sa) != 1 || len(sa[0]) != 2 {
			return nil, fmt.Errorf("sketch.go: %s: unexpected calls of position/%s", spec[0], spec[1])
		}
		h, err := leanBV(pa[0][0])
		if err != nil {
			return nil, err
		}
		s, err := leanBV(sa[0][1])
		if err != nil {
			return nil, err
		}
		fmt.Fprintf(&b, "def %s_hash (h1 h2 i : BitVec 32) : BitVec 32 := %s\n", spec[2], h)
		fmt.Fprintf(&b, "def %s_shift (i off : BitVec 32) : BitVec 32 := %s\n", spec[2], s)
		fmt.Fprintf(&b, "def %s_indexArg : String := %s\n", spec[2], goast.LeanString(goast.ExprString(sa[0][0])))
		fmt.Fprintf(&b, "def %s_loops : List String := %s\n", spec[2], goast.LeanStringList(loopHeads(fd)))
	}
	// doorkeeper: set / get split a bit number, Put / Contains compute it
	for _, fn := range []string{"set", "get"} {
		fd, err := fl.Func("BloomFilter." + fn)
		if err != nil {
			return nil, err
		}
		asg := assignments(fd)
		for _, v := range []string{"idx", "shift"} {
			e, ok := asg[v]
			if !ok {
				return nil, fmt.Errorf("filter.go: %s does not assign %s", fn, v)
			}
			t, err := leanBV(e)
			if err != nil {
				return nil, err
			}
			fmt.Fprintf(&b, "def %s_%s (i : BitVec 32) : BitVec 32 := %s\n", fn, v, t)
		}
	}
	for _, spec := range [][3]string{{"BloomFilter.Put", "set", "put"}, {"BloomFilter.Contains", "get", "contains"}} {
		fd, err := fl.Func(spec[0])
		if err != nil {
			return nil, err
		}
		a := callArgs(fd, spec[1])
		if len(a) != 1 || len(a[0]) != 1 {
			return nil, fmt.Errorf("filter.go: %s: unexpected calls of %s", spec[0], spec[1])
		}
		t, err := leanBV(a[0][0])
		if err != nil {
			return nil, err
		}
		fmt.Fprintf(&b, "def %s_bit (h1 h2 i bitsMask : BitVec 32) : BitVec 32 := %s\n", spec[2], t)
	}
	// nextPowerOfTwo: straight-line uint32 code -> a let-chain
	npt, err := fl.Func("nextPowerOfTwo")
	if err != nil {
		return nil, err
	}
	body, err := leanLetChain(npt)
	if err != nil {
		return nil, err
	}
	if npt.Type.Params == nil || len(npt.Type.Params.List) != 1 || len(npt.Type.Params.List[0].Names) != 1 {
		return nil, fmt.Errorf("filter.go: nextPowerOfTwo: unexpected parameters")
	}
	fmt.Fprintf(&b, "def nextPowerOfTwo (%s : BitVec 32) : BitVec 32 :=\n%s", npt.Type.Params.List[0].Names[0].Name, body)
	// every slice index expression of the two files: "func: slice[index]"
	var idx []string
	for _, f := range []*goast.File{sk, fl} {
		for _, d := range f.AST.Decls {
			fd, ok := d.(*ast.FuncDecl)
			if !ok || fd.Body == nil {
				continue
			}
			ast.Inspect(fd.Body, func(n ast.Node) bool {
				if ix, ok := n.(*ast.IndexExpr); ok {
					idx = append(idx, fd.Name.Name+": "+goast.ExprString(ix.X)+"["+goast.ExprString(ix.Index)+"]")
				}
				return true
			})
		}
	}
	sort.Strings(idx)
	fmt.Fprintf(&b, "def indexSites : List String := %s\n", goast.LeanStringList(dedup(idx)))
	// the statements that size the slices
	for _, spec := range []struct {
		f    *goast.File
		name string
		def  string
	}{{sk, "CountMinSketch.Init", "sketchInit"}, {fl, "BloomFilter.Init", "filterInit"}} {
		fd, err := spec.f.Func(spec.name)
		if err != nil {
			return nil, err
		}
		fmt.Fprintf(&b, "def %s : List String := %s\n", spec.def, goast.LeanStringList(flatStmts(fd.Body)))
	}
	b.WriteString("end AsherahVerif.Generated.Sketch\n")
	return map[string]string{"Sketch.lean": b.String()}, nil
}

func dedup(xs []string) []string {
	var out []string
	for i, x := range xs {
		if i == 0 || xs[i-1] != x {
			out = append(out, x)
		}
	}
	return out
}

// assignments: variable -> right-hand side for every `a, b = x, y` / `a, b := x, y` of a function body.
func assignments(fd *ast.FuncDecl) map[string]ast.Expr {
	m := map[string]ast.Expr{}
	ast.Inspect(fd.Body, func(n ast.Node) bool {
		if a, ok := n.(*ast.AssignStmt); ok && len(a.Lhs) == len(a.Rhs) {
			for i, l := range a.Lhs {
				if id, ok := l.(*ast.Ident); ok {
					m[id.Name] = a.Rhs[i]
				}
			}
		}
		return true
	})
	return m
}

// callArgs: the argument lists of every call `recv.name(...)` in a function body.
func callArgs(fd *ast.FuncDecl, name string) [][]ast.Expr {
	var out [][]ast.Expr
	ast.Inspect(fd.Body, func(n ast.Node) bool {
		if c, ok := n.(*ast.CallExpr); ok {
			if s, ok := c.Fun.(*ast.SelectorExpr); ok && s.Sel.Name == name {
				out = append(out, c.Args)
			}
		}
		return true
	})
	return out
}

func loopHeads(fd *ast.FuncDecl) []string {
	var out []string
	ast.Inspect(fd.Body, func(n ast.Node) bool {
		if f, ok := n.(*ast.ForStmt); ok {
			h := ""
			if a, ok := f.Init.(*ast.AssignStmt); ok && len(a.Lhs) == 1 && len(a.Rhs) == 1 {
				h = goast.ExprString(a.Lhs[0]) + ":=" + goast.ExprString(a.Rhs[0])
			}
			h += ";" + goast.ExprString(f.Cond) + ";"
			if p, ok := f.Post.(*ast.IncDecStmt); ok {
				h += goast.ExprString(p.X) + p.Tok.String()
			}
			out = append(out, h)
		}
		return true
	})
	return out
}

// flatStmts: assignments, conditions and block ends of a body in source order (compact form).
func flatStmts(b *ast.BlockStmt) []string {
	var out []string
	var walk func(st ast.Stmt)
	walk = func(st ast.Stmt) {
		switch t := st.(type) {
		case *ast.AssignStmt:
			var l, r []string
			for _, e := range t.Lhs {
				l = append(l, goast.ExprString(e))
			}
			for _, e := range t.Rhs {
				r = append(r, goast.ExprString(e))
			}
			out = append(out, strings.Join(l, ",")+t.Tok.String()+strings.Join(r, ","))
		case *ast.ExprStmt:
			out = append(out, goast.ExprString(t.X))
		case *ast.IfStmt:
			if t.Init != nil {
				walk(t.Init)
			}
			out = append(out, "if "+goast.ExprString(t.Cond)+" {")
			for _, s := range t.Body.List {
				walk(s)
			}
			if t.Else != nil {
				out = append(out, "} else {")
				if eb, ok := t.Else.(*ast.BlockStmt); ok {
					for _, s := range eb.List {
						walk(s)
					}
				} else {
					walk(t.Else)
				}
			}
			out = append(out, "}")
		case *ast.BlockStmt:
			for _, s := range t.List {
				walk(s)
			}
		default:
			out = append(out, fmt.Sprintf("stmt:%T", st))
		}
	}
	for _, s := range b.List {
		walk(s)
	}
	return out
}

// leanBV renders a Go uint32 expression as a fully parenthesised Lean term over `BitVec 32`.
// Selectors lose their receiver (`c.mask` -> `mask`); anything else than identifiers, integer
// literals and the wrap-around operators is refused, so an expression the translator does not
// understand breaks the extraction instead of being guessed.
func leanBV(e ast.Expr) (string, error) {
	switch t := e.(type) {
	case *ast.ParenExpr:
		return leanBV(t.X)
	case *ast.Ident:
		return t.Name, nil
	case *ast.SelectorExpr:
		return t.Sel.Name, nil
	case *ast.BasicLit:
		if t.Kind != token.INT {
			return "", fmt.Errorf("translator: literal %s", t.Value)
		}
		return "(" + t.Value + " : BitVec 32)", nil
	case *ast.BinaryExpr:
		x, err := leanBV(t.X)
		if err != nil {
			return "", err
		}
		if t.Op == token.SHL || t.Op == token.SHR {
			op := "<<<"
			if t.Op == token.SHR {
				op = ">>>"
			}
			if l, ok := t.Y.(*ast.BasicLit); ok && l.Kind == token.INT {
				return "(" + x + " " + op + " (" + l.Value + " : Nat))", nil
			}
			y, err := leanBV(t.Y)
			if err != nil {
				return "", err
			}
			return "(" + x + " " + op + " (" + y + ").toNat)", nil
		}
		y, err := leanBV(t.Y)
		if err != nil {
			return "", err
		}
		op, ok := map[token.Token]string{token.AND: "&&&", token.OR: "|||", token.XOR: "^^^", token.ADD: "+",
			token.SUB: "-", token.MUL: "*", token.QUO: "/", token.REM: "%"}[t.Op]
		if !ok {
			return "", fmt.Errorf("translator: operator %s", t.Op)
		}
		return "(" + x + " " + op + " " + y + ")", nil
	}
	return "", fmt.Errorf("translator: unsupported expression %s", goast.ExprString(e))
}

// leanLetChain renders a straight-line uint32 function body (`x := e`, `x = e`, `x op= e`, `x++`,
// `x--`, one final `return e`) as a chain of Lean `let`s; any other statement is refused.
func leanLetChain(fd *ast.FuncDecl) (string, error) {
	var b strings.Builder
	opAssign := map[token.Token]token.Token{token.OR_ASSIGN: token.OR, token.AND_ASSIGN: token.AND, token.XOR_ASSIGN: token.XOR,
		token.ADD_ASSIGN: token.ADD, token.SUB_ASSIGN: token.SUB, token.MUL_ASSIGN: token.MUL, token.SHL_ASSIGN: token.SHL, token.SHR_ASSIGN: token.SHR}
	for i, st := range fd.Body.List {
		switch t := st.(type) {
		case *ast.AssignStmt:
			if len(t.Lhs) != 1 || len(t.Rhs) != 1 {
				return "", fmt.Errorf("translator: multi-assignment in %s", fd.Name.Name)
			}
			id, ok := t.Lhs[0].(*ast.Ident)
			if !ok {
				return "", fmt.Errorf("translator: assignment target in %s", fd.Name.Name)
			}
			rhs := t.Rhs[0]
			if op, ok := opAssign[t.Tok]; ok {
				rhs = &ast.BinaryExpr{X: id, Op: op, Y: t.Rhs[0]}
			} else if t.Tok != token.DEFINE && t.Tok != token.ASSIGN {
				return "", fmt.Errorf("translator: assignment operator %s", t.Tok)
			}
			e, err := leanBV(rhs)
			if err != nil {
				return "", err
			}
			fmt.Fprintf(&b, "  let %s := %s\n", id.Name, e)
		case *ast.IncDecStmt:
			id, ok := t.X.(*ast.Ident)
			if !ok {
				return "", fmt.Errorf("translator: ++/-- target in %s", fd.Name.Name)
			}
			op := "+"
			if t.Tok == token.DEC {
				op = "-"
			}
			fmt.Fprintf(&b, "  let %s := (%s %s (1 : BitVec 32))\n", id.Name, id.Name, op)
		case *ast.ReturnStmt:
			if len(t.Results) != 1 || i != len(fd.Body.List)-1 {
				return "", fmt.Errorf("translator: return in %s", fd.Name.Name)
			}
			e, err := leanBV(t.Results[0])
			if err != nil {
				return "", err
			}
			fmt.Fprintf(&b, "  %s\n", e)
			return b.String(), nil
		default:
			return "", fmt.Errorf("translator: statement %T in %s", st, fd.Name.Name)
		}
	}
	return "", fmt.Errorf("translator: %s does not end in a return", fd.Name.Name)
}
