package main

import (
	"fmt"
	"sync"
	"sync/atomic"
	"time"

	"github.com/godaddy/asherah/go/appencryption/pkg/cache"
)

// Concurrent callers (mode conc).  The sequential model speaks for concurrent use only if every
// operation is atomic (Props/C15b.cache_ops_atomic_as_vetted); this mode looks for a concrete failing
// schedule when that breaks: readers, writers, a deleter and a clock mover hammer one small expiring
// cache (synchronous callbacks, every Set stores a value used once).  Judged directly, on facts that
// hold for every sequential history: no operation panics, the callback fires at most once per stored
// value and only for values that were stored, Len never exceeds the capacity.
type aclk struct{ ns atomic.Int64 }

func (c *aclk) Now() time.Time { return time.Unix(0, c.ns.Load()) }

func concCase(policy string, capacity, keys int, expiry time.Duration, opsPer int) string {
	clock := &aclk{}
	clock.ns.Store(int64(1000 * time.Second))
	var mu sync.Mutex
	fired := map[int]int{}
	var fail atomic.Value
	report := func(s string) { fail.CompareAndSwap(nil, s) }
	var next atomic.Int64
	stored := sync.Map{}
	b := cache.New[int, int](capacity).WithPolicy(cache.CachePolicy(policy)).WithClock(clock).Synchronous().
		WithEvictFunc(func(k, v int) {
			mu.Lock()
			fired[v]++
			n := fired[v]
			mu.Unlock()
			if n > 1 {
				report(fmt.Sprintf("callback fired %d times for key %d value %d", n, k, v))
			}
			if _, ok := stored.Load(v); !ok {
				report(fmt.Sprintf("callback for value %d that was never stored", v))
			}
		})
	if expiry > 0 {
		b = b.WithExpiry(expiry)
	}
	c := b.Build()
	var wg sync.WaitGroup
	worker := func(id int, f func(i int)) {
		wg.Add(1)
		go func() {
			defer wg.Done()
			defer func() {
				if e := recover(); e != nil {
					report(fmt.Sprintf("panic in worker %d: %v", id, e))
				}
			}()
			for i := 0; i < opsPer && fail.Load() == nil; i++ {
				f(i)
			}
		}()
	}
	for r := 0; r < 4; r++ {
		r := r
		worker(r, func(i int) {
			c.Get((i + r) % keys)
			if n := c.Len(); n > capacity {
				report(fmt.Sprintf("Len %d exceeds capacity %d", n, capacity))
			}
		})
	}
	for w := 0; w < 2; w++ {
		w := w
		worker(10+w, func(i int) {
			v := int(next.Add(1))
			stored.Store(v, true)
			c.Set((i*7+w)%keys, v)
		})
	}
	worker(20, func(i int) { c.Delete(i % keys) })
	worker(30, func(i int) { clock.ns.Add(int64(expiry/3) + 1) })
	done := make(chan struct{})
	go func() { wg.Wait(); close(done) }()
	select {
	case <-done:
	case <-time.After(60 * time.Second):
		return "deadlock: workers did not finish within 60 s"
	}
	func() {
		defer func() {
			if e := recover(); e != nil {
				report(fmt.Sprintf("panic in Close: %v", e))
			}
		}()
		c.Close()
	}()
	if s := fail.Load(); s != nil {
		return s.(string)
	}
	return ""
}

func concurrent(rounds, opsPer int) {
	n := 0
	for round := 0; round < rounds; round++ {
		for _, p := range policies {
			for _, capacity := range []int{1, 2, 3} {
				for _, exp := range []time.Duration{0, 50 * time.Nanosecond} {
					n++
					if s := concCase(p, capacity, capacity+1, exp, opsPer); s != "" {
						fmt.Fprintf(out, "CONC-FAIL policy=%s cap=%d keys=%d expiry=%d: %s\n", p, capacity, capacity+1, exp, s)
						out.Flush()
						return
					}
				}
			}
		}
	}
	fmt.Fprintf(out, "CONC-OK cases=%d ops=%d\n", n, n*8*opsPer)
}
