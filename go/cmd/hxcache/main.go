// hxcache drives the real pkg/cache through its public builder and writes one line per operation:
//
//	new <policy> <cap> <expiry> <sync>
//	<op> => <res> <callbacks>
//
// (protocol documented in lean/AsherahVerif/Driver/Cache.lean). The model driver replays the same
// lines. Modes: random (seeded), exhaustive (all sequences up to a length over a small alphabet),
// replay (a file of op lines without observations).
package main

import (
	"bufio"
	"flag"
	"fmt"
	"os"
	"strconv"
	"strings"
	"sync"
	"time"

	"github.com/godaddy/asherah/go/appencryption/pkg/cache"

	"verifharness/internal/prng"
)

type clk struct{ t time.Time }

func (c *clk) Now() time.Time { return c.t }

type run struct {
	c     cache.Interface[int, int]
	clock *clk
	mu    sync.Mutex
	cbs   []string
	sync  bool
	dead  bool
}

var out = bufio.NewWriterSize(os.Stdout, 1<<20)

func newRun(policy string, capacity int, expiry int, isSync bool) *run {
	r := &run{clock: &clk{t: time.Unix(1000, 0)}, sync: isSync}
	b := cache.New[int, int](capacity).WithPolicy(cache.CachePolicy(policy)).WithClock(r.clock).
		WithEvictFunc(func(k, v int) {
			r.mu.Lock()
			r.cbs = append(r.cbs, strconv.Itoa(k)+":"+strconv.Itoa(v))
			r.mu.Unlock()
		})
	if expiry > 0 {
		b = b.WithExpiry(time.Duration(expiry))
	}
	if isSync {
		b = b.Synchronous()
	}
	r.c = b.Build()
	s := 0
	if isSync {
		s = 1
	}
	fmt.Fprintf(out, "new %s %d %d %d\n", policy, capacity, expiry, s)
	return r
}

func (r *run) takeCbs() string {
	r.mu.Lock()
	defer r.mu.Unlock()
	if len(r.cbs) == 0 {
		return "-"
	}
	s := strings.Join(r.cbs, ",")
	r.cbs = r.cbs[:0]
	return s
}

// exec runs one op; in asynchronous mode under a watchdog so that a deadlock is an observation.
func (r *run) exec(op string) {
	if r.dead {
		return
	}
	f := strings.Fields(op)
	atoi := func(i int) int { n, _ := strconv.Atoi(f[i]); return n }
	do := func() (res string) {
		defer func() {
			if e := recover(); e != nil {
				res = "panic"
			}
		}()
		switch f[0] {
		case "set":
			r.c.Set(atoi(1), atoi(2))
			return "unit"
		case "get":
			if v, ok := r.c.Get(atoi(1)); ok {
				return "val:" + strconv.Itoa(v)
			}
			return "miss"
		case "del":
			return strconv.FormatBool(r.c.Delete(atoi(1)))
		case "len":
			return "num:" + strconv.Itoa(r.c.Len())
		case "cap":
			return "num:" + strconv.Itoa(r.c.Capacity())
		case "tick":
			r.clock.t = r.clock.t.Add(time.Duration(atoi(1)))
			return "unit"
		case "close":
			r.c.Close()
			return "unit"
		}
		return "bad-op"
	}
	var res string
	if r.sync {
		res = do()
	} else {
		ch := make(chan string, 1)
		go func() { ch <- do() }()
		select {
		case res = <-ch:
		case <-time.After(5 * time.Second):
			res = "deadlock"
		}
	}
	if res == "panic" || res == "deadlock" {
		r.dead = true
	}
	fmt.Fprintf(out, "%s => %s %s\n", op, res, r.takeCbs())
}

var policies = []string{"lru", "lfu", "slru", "tinylfu"}

func randomCases(rng *prng.R, cases, length int) {
	caps := []int{1, 1, 2, 2, 3, 3, 4, 5, 7, 10, 99, 100, 101, 200}
	for i := 0; i < cases; i++ {
		pol := policies[rng.Intn(4)]
		capacity := caps[rng.Intn(len(caps))]
		expiry := 0
		if rng.Intn(3) == 0 {
			expiry = 5 + rng.Intn(20)
		}
		isSync := rng.Intn(4) != 0
		if pol == "tinylfu" && capacity >= 100 {
			isSync = true // the victim hint is read off the synchronous callback
		}
		r := newRun(pol, capacity, expiry, isSync)
		universe := capacity + 1 + rng.Intn(3)
		if capacity >= 99 && rng.Intn(3) != 0 {
			// prefill close to capacity so that evictions happen (one case in three stays nearly empty)
			n := capacity - rng.Intn(3)
			for k := 0; k < n; k++ {
				r.exec(fmt.Sprintf("set %d %d", k, rng.Intn(3)))
			}
		}
		for j := 0; j < length && !r.dead; j++ {
			switch rng.Pick(40, 33, 10, 8, 3, 2, 1) {
			case 0:
				r.exec(fmt.Sprintf("set %d %d", rng.Intn(universe), rng.Intn(4)))
			case 1:
				r.exec(fmt.Sprintf("get %d", rng.Intn(universe)))
			case 2:
				r.exec(fmt.Sprintf("del %d", rng.Intn(universe)))
			case 3:
				r.exec(fmt.Sprintf("tick %d", 1+rng.Intn(15)))
			case 4:
				r.exec("len")
			case 5:
				r.exec("cap")
			case 6:
				r.exec("close")
			}
		}
		r.exec("len")
		r.exec("close")
		r.exec("len")
	}
}

func exhaustive(maxLen int, caps []int, pols []string, expiries []int, syncs []bool) {
	alpha := []string{"set 1 1", "set 1 2", "set 2 1", "set 2 2", "set 3 1", "set 3 2", "get 1", "get 2", "get 3",
		"del 1", "del 2", "del 3", "tick 6", "close", "len"}
	seq := make([]int, maxLen)
	for _, pol := range pols {
		for _, capacity := range caps {
			for _, expiry := range expiries {
				for _, s := range syncs {
					for i := range seq {
						seq[i] = 0
					}
					for {
						r := newRun(pol, capacity, expiry, s)
						for _, a := range seq {
							r.exec(alpha[a])
						}
						r.exec("close")
						// next sequence
						i := maxLen - 1
						for i >= 0 {
							seq[i]++
							if seq[i] < len(alpha) {
								break
							}
							seq[i] = 0
							i--
						}
						if i < 0 {
							break
						}
					}
				}
			}
		}
	}
}

func replay(path string) {
	f, err := os.Open(path)
	if err != nil {
		fmt.Fprintln(os.Stderr, err)
		os.Exit(2)
	}
	defer f.Close()
	sc := bufio.NewScanner(f)
	var r *run
	for sc.Scan() {
		line := sc.Text()
		if i := strings.Index(line, " => "); i >= 0 {
			line = line[:i]
		}
		f := strings.Fields(line)
		if len(f) == 0 || strings.HasPrefix(line, "#") {
			continue
		}
		if f[0] == "new" && len(f) == 5 {
			c, _ := strconv.Atoi(f[2])
			e, _ := strconv.Atoi(f[3])
			r = newRun(f[1], c, e, f[4] == "1")
			continue
		}
		if r != nil {
			r.exec(line)
		}
	}
}

func main() {
	mode := flag.String("mode", "random", "random|exhaustive|replay|conc")
	cases := flag.Int("cases", 2000, "random cases")
	length := flag.Int("len", 60, "ops per random case")
	maxLen := flag.Int("maxlen", 4, "exhaustive sequence length")
	file := flag.String("file", "", "replay file")
	flag.Parse()
	defer out.Flush()
	switch *mode {
	case "random":
		randomCases(prng.FromEnv(15), *cases, *length)
	case "exhaustive":
		exhaustive(*maxLen, []int{1, 2, 3}, policies, []int{0, 5}, []bool{true})
		exhaustive(*maxLen-1, []int{1, 2}, policies, []int{0, 5}, []bool{false})
		// TinyLFU with a real admission window (capacity >= 100) holding only a few entries: everything
		// still sits in the window, the main segment is empty
		n := *maxLen
		if n > 4 {
			n = 4
		}
		exhaustive(n, []int{100, 200}, []string{"tinylfu"}, []int{0, 5}, []bool{true})
	case "replay":
		replay(*file)
	case "conc":
		concurrent(*cases, *length)
	}
}
