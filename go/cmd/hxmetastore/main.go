// hxmetastore drives the four REAL metastore implementations of asherah against semantic fakes of
// their backends (go/internal/fakeddb, go/internal/fakesql) and writes one line per operation:
//
//	be <memory|sql:<default|mysql|postgres|oracle>|ddb1|ddb2> table=<-|x<hex>> suffix=<0|1> region=<r> => suffix=x<hex>
//	store x<id> <created> <rec>   => <true|false|false+err:<class>|panic> req=<canonical requests the fake saw>
//	load x<id> <created>          => <none|rec:<rec>|err:<class>|panic> req=…
//	latest x<id>                  => <none|rec:<rec>|err:<class>|panic> req=…
//	lag <k>                       => ok        eventually consistent reads are answered from the state k writes ago
//	fault                         => ok        the next backend request fails (connection lost / InternalServerError)
//
// <rec> = x<id>,<revoked 0|1>,<created>,x<key bytes>,<-|x<parent id>@<parent created>>; strings are hex of their UTF-8.
// The Lean driver (lean/AsherahVerif/Driver/Metastore.lean) replays the same lines on the model.
// Modes: random (seeded by VERIF_SEED), exhaustive (all sequences of a length over a small alphabet),
// replay (a file of op lines, observations ignored).
package main

import (
	"bufio"
	"context"
	"encoding/base64"
	"encoding/hex"
	"encoding/json"
	"errors"
	"flag"
	"fmt"
	"os"
	"strconv"
	"strings"

	"github.com/aws/aws-sdk-go-v2/feature/dynamodb/attributevalue"
	"github.com/aws/aws-sdk-go/aws"
	"github.com/aws/aws-sdk-go/aws/awserr"
	"github.com/aws/aws-sdk-go/aws/session"
	"github.com/aws/aws-sdk-go/service/dynamodb/dynamodbattribute"
	smithy "github.com/aws/smithy-go"

	"github.com/godaddy/asherah/go/appencryption"
	"github.com/godaddy/asherah/go/appencryption/pkg/persistence"
	v1 "github.com/godaddy/asherah/go/appencryption/plugins/aws-v1/persistence"
	v2 "github.com/godaddy/asherah/go/appencryption/plugins/aws-v2/dynamodb/metastore"

	"verifharness/internal/fakeddb"
	"verifharness/internal/fakesql"
	"verifharness/internal/prng"
)

var out = bufio.NewWriterSize(os.Stdout, 1<<20)

const defaultTable = "EncryptionKey" // documented default table name (docs/Metastore.md)

type backend struct {
	ms        appencryption.Metastore
	take      func() string // canonical requests since the last call
	setLag    func(int)
	fail      func()
	failPlain func()
	close     func()
}

func hx(s string) string { return "x" + hex.EncodeToString([]byte(s)) }

func unhx(s string) (string, bool) {
	if !strings.HasPrefix(s, "x") {
		return "", false
	}
	b, err := hex.DecodeString(s[1:])
	return string(b), err == nil
}

var dsnCounter int

// newBackend builds the real metastore named by the `be` line; the observation is its region suffix.
func newBackend(kind, table string, suffix bool, region string) (b *backend, obs string) {
	defer func() {
		if e := recover(); e != nil {
			b, obs = nil, "panic"
		}
	}()
	tableOpt, hasTable := "", false
	if table != "-" {
		t, ok := unhx(table)
		if !ok {
			return nil, "bad-op"
		}
		tableOpt, hasTable = t, true
	}
	effective := defaultTable
	if tableOpt != "" {
		effective = tableOpt
	}
	switch {
	case kind == "memory":
		return &backend{ms: persistence.NewMemoryMetastore(), take: func() string { return "-" }, setLag: func(int) {}, fail: func() {},
			close: func() {}}, "suffix=x"
	case strings.HasPrefix(kind, "sql:"):
		dialect := kind[4:]
		fdb := &fakesql.DB{Dialect: dialect}
		var opts []persistence.SQLMetastoreOption
		switch dialect {
		case "default":
			fdb.Dialect = "mysql"
		case "mysql":
			opts = append(opts, persistence.WithSQLMetastoreDBType(persistence.MySQL))
		case "postgres":
			opts = append(opts, persistence.WithSQLMetastoreDBType(persistence.Postgres))
		case "oracle":
			opts = append(opts, persistence.WithSQLMetastoreDBType(persistence.Oracle))
		default:
			return nil, "bad-op"
		}
		dsnCounter++
		dsn := "case" + strconv.Itoa(dsnCounter)
		h, err := fakesql.Open(dsn, fdb)
		if err != nil {
			return nil, "bad-op"
		}
		h.SetMaxOpenConns(1)
		return &backend{ms: persistence.NewSQLMetastore(h, opts...), take: fdb.Take, setLag: func(int) {},
			fail: func() { fdb.FailNext = true }, close: func() { h.Close(); fakesql.Forget(dsn) }}, "suffix=x"
	case kind == "ddb1":
		db := fakeddb.New()
		db.CreateTable(effective, "Id", "Created")
		cl := &fakeddb.V1{DB: db}
		sess, err := session.NewSession(&aws.Config{Region: aws.String(region), Endpoint: aws.String("http://localhost:1")})
		if err != nil {
			return nil, "bad-op"
		}
		opts := []v1.DynamoDBMetastoreOption{v1.WithClient(cl)}
		if hasTable {
			opts = append(opts, v1.WithTableName(tableOpt))
		}
		opts = append(opts, v1.WithDynamoDBRegionSuffix(suffix))
		m := v1.NewDynamoDBMetastore(sess, opts...)
		return &backend{ms: m, take: cl.Take, setLag: func(k int) { db.Lag = k }, fail: func() { db.FailNext = true }, failPlain: func() { db.FailPlain = true }, close: func() {}},
			"suffix=" + hx(m.GetRegionSuffix())
	case kind == "ddb2":
		db := fakeddb.New()
		db.CreateTable(effective, "Id", "Created")
		cl := &fakeddb.V2{DB: db, Region: region}
		opts := []v2.Option{v2.WithDynamoDBClient(cl), v2.WithRegionSuffix(suffix)}
		if hasTable {
			opts = append(opts, v2.WithTableName(tableOpt))
		}
		m, err := v2.NewDynamoDB(opts...)
		if err != nil {
			return nil, "err"
		}
		return &backend{ms: m, take: cl.Take, setLag: func(k int) { db.Lag = k }, fail: func() { db.FailNext = true }, failPlain: func() { db.FailPlain = true }, close: func() {}},
			"suffix=" + hx(m.GetRegionSuffix())
	}
	return nil, "bad-op"
}

func showRec(r *appencryption.EnvelopeKeyRecord) string {
	rev := "0"
	if r.Revoked {
		rev = "1"
	}
	p := "-"
	if r.ParentKeyMeta != nil {
		p = hx(r.ParentKeyMeta.ID) + "@" + strconv.FormatInt(r.ParentKeyMeta.Created, 10)
	}
	return hx(r.ID) + "," + rev + "," + strconv.FormatInt(r.Created, 10) + "," + hx(string(r.EncryptedKey)) + "," + p
}

func parseRec(s string) (*appencryption.EnvelopeKeyRecord, bool) {
	f := strings.Split(s, ",")
	if len(f) != 5 {
		return nil, false
	}
	id, ok1 := unhx(f[0])
	c, err := strconv.ParseInt(f[2], 10, 64)
	key, ok2 := unhx(f[3])
	if !ok1 || !ok2 || err != nil || (f[1] != "0" && f[1] != "1") {
		return nil, false
	}
	r := &appencryption.EnvelopeKeyRecord{ID: id, Revoked: f[1] == "1", Created: c, EncryptedKey: []byte(key)}
	if f[4] != "-" {
		pc := strings.Split(f[4], "@")
		if len(pc) != 2 {
			return nil, false
		}
		pid, ok := unhx(pc[0])
		pcr, err := strconv.ParseInt(pc[1], 10, 64)
		if !ok || err != nil {
			return nil, false
		}
		r.ParentKeyMeta = &appencryption.KeyMeta{ID: pid, Created: pcr}
	}
	return r, true
}

// errClass maps an error of the real code to the small enum of the observations.
func errClass(err error) string {
	var se *fakesql.Error
	if errors.As(err, &se) {
		return se.Class
	}
	code := ""
	var ae awserr.Error
	var api smithy.APIError
	switch {
	case errors.As(err, &ae):
		code = ae.Code()
	case errors.As(err, &api):
		code = api.ErrorCode()
	}
	switch code {
	case fakeddb.CondFailed:
		return "cond"
	case fakeddb.NotFound:
		return "table"
	case fakeddb.Internal:
		return "injected"
	}
	if strings.Contains(err.Error(), fakeddb.Transport) {
		return "injected" // a request that failed below the API level is a failed request all the same
	}
	if strings.Contains(err.Error(), fakeddb.Validation) {
		return "validation"
	}
	var (
		j1 *json.SyntaxError
		j2 *json.UnmarshalTypeError
		b6 base64.CorruptInputError
		d1 *dynamodbattribute.UnmarshalTypeError
		d2 *attributevalue.UnmarshalTypeError
	)
	if errors.As(err, &j1) || errors.As(err, &j2) || errors.As(err, &b6) || errors.As(err, &d1) || errors.As(err, &d2) || errors.Is(err, v2.ItemDecodeError) {
		return "decode"
	}
	return "other"
}

type run struct {
	b    *backend
	dead bool
}

func (r *run) exec(line string) {
	f := strings.Fields(line)
	if len(f) == 0 {
		return
	}
	if f[0] == "be" {
		if r.b != nil {
			r.b.close()
		}
		r.b, r.dead = nil, false
		if len(f) != 5 || !strings.HasPrefix(f[2], "table=") || !strings.HasPrefix(f[3], "suffix=") || !strings.HasPrefix(f[4], "region=") {
			fmt.Fprintf(out, "%s => bad-op\n", line)
			return
		}
		b, obs := newBackend(f[1], f[2][6:], f[3][7:] == "1", f[4][7:])
		r.b = b
		fmt.Fprintf(out, "%s => %s\n", line, obs)
		return
	}
	if r.b == nil || r.dead {
		fmt.Fprintf(out, "%s => bad-op\n", line)
		return
	}
	ctx := context.Background()
	res := func() (res string) {
		defer func() {
			if e := recover(); e != nil {
				res = "panic"
			}
		}()
		switch {
		case f[0] == "store" && len(f) == 4:
			id, ok := unhx(f[1])
			c, err := strconv.ParseInt(f[2], 10, 64)
			rec, ok2 := parseRec(f[3])
			if !ok || !ok2 || err != nil {
				return "bad-op"
			}
			done, err := r.b.ms.Store(ctx, id, c, rec)
			s := strconv.FormatBool(done)
			if err != nil {
				s += "+err:" + errClass(err)
			}
			return s
		case (f[0] == "load" && len(f) == 3) || (f[0] == "latest" && len(f) == 2):
			id, ok := unhx(f[1])
			if !ok {
				return "bad-op"
			}
			var rec *appencryption.EnvelopeKeyRecord
			var err error
			if f[0] == "load" {
				c, perr := strconv.ParseInt(f[2], 10, 64)
				if perr != nil {
					return "bad-op"
				}
				rec, err = r.b.ms.Load(ctx, id, c)
			} else {
				rec, err = r.b.ms.LoadLatest(ctx, id)
			}
			switch {
			case err != nil && rec != nil:
				return "rec+err:" + errClass(err)
			case err != nil:
				return "err:" + errClass(err)
			case rec == nil:
				return "none"
			}
			return "rec:" + showRec(rec)
		case f[0] == "lag" && len(f) == 2:
			k, err := strconv.Atoi(f[1])
			if err != nil || k < 0 {
				return "bad-op"
			}
			r.b.setLag(k)
			return "ok"
		case f[0] == "fault" && len(f) == 1:
			r.b.fail()
			return "ok"
		case f[0] == "fault" && len(f) == 2 && f[1] == "plain":
			// the next request fails with a plain error value (no AWS error code): timeouts, wrappers
			r.b.fail()
			if r.b.failPlain != nil {
				r.b.failPlain()
			}
			return "ok"
		}
		return "bad-op"
	}()
	if res == "panic" {
		r.dead = true
	}
	if f[0] == "lag" || f[0] == "fault" {
		fmt.Fprintf(out, "%s => %s\n", line, res)
		return
	}
	fmt.Fprintf(out, "%s => %s req=%s\n", line, res, r.b.take())
}

// ---- generators ---------------------------------------------------------------------------------

var idPool = []string{"_SK_svc_prod", "_IK_part_svc_prod", "_IK_part_svc_prod_us-west-2", "k", "ключ", "a b", "id\"q\\", "_SK_svc_prod2"}
var parentIDs = []string{"_SK_svc_prod", "", "p\"q\\r", "<&>", "tab\there", "nl\nx", " é\U0001F511", "\x01\x1f", "_SK_svc_prod_eu-west-1", "/slash"}
var stampPool = []int64{0, 1, 59, 60, 1700000000, 1700000060, 1700003600, -1, -86400, 4102444800, 1 << 40, 9223372036854775807, -9223372036854775808}
var tables = []string{"-", "-", "x", hx("Keys"), hx("asherah_keys-2"), hx("EncryptionKey")}
var regions = []string{"us-west-2", "eu-central-1", "ap-south-1"}

func genRec(rng *prng.R, id string, c int64) string {
	rid := id
	switch rng.Intn(8) {
	case 0:
		rid = ""
	case 1:
		rid = idPool[rng.Intn(len(idPool))]
	}
	rc := c
	if rng.Intn(6) == 0 {
		rc = stampPool[rng.Intn(len(stampPool))]
	}
	klen := []int{0, 1, 2, 3, 4, 5, 16, 31, 32, 33, 48, 60}[rng.Intn(12)]
	key := rng.Bytes(klen)
	if rng.Intn(10) == 0 {
		for i := range key {
			key[i] = []byte{0, 0xff, 0xfb, 0x3f, 0x3e}[rng.Intn(5)]
		}
	}
	p := "-"
	if rng.Intn(3) != 0 {
		p = hx(parentIDs[rng.Intn(len(parentIDs))]) + "@" + strconv.FormatInt(stampPool[rng.Intn(len(stampPool))], 10)
	}
	rev := "0"
	if rng.Intn(3) == 0 {
		rev = "1"
	}
	return hx(rid) + "," + rev + "," + strconv.FormatInt(rc, 10) + ",x" + hex.EncodeToString(key) + "," + p
}

func randomCases(rng *prng.R, cases, length int, only string) {
	kinds := []string{"memory", "sql:default", "sql:mysql", "sql:postgres", "sql:oracle", "ddb1", "ddb1", "ddb2", "ddb2"}
	r := &run{}
	for i := 0; i < cases; i++ {
		kind := kinds[rng.Intn(len(kinds))]
		if only != "" {
			kind = only
		}
		table, suffix := "-", "0"
		if strings.HasPrefix(kind, "ddb") {
			table = tables[rng.Intn(len(tables))]
			if rng.Bool() {
				suffix = "1"
			}
		}
		r.exec(fmt.Sprintf("be %s table=%s suffix=%s region=%s", kind, table, suffix, regions[rng.Intn(len(regions))]))
		nid := 2 + rng.Intn(3)
		ids := make([]string, nid)
		off := rng.Intn(len(idPool))
		for j := range ids {
			ids[j] = idPool[(off+j)%len(idPool)]
		}
		nst := 3 + rng.Intn(3)
		stamps := make([]int64, nst)
		offS := rng.Intn(len(stampPool))
		for j := range stamps {
			if rng.Intn(4) == 0 {
				stamps[j] = int64(rng.Intn(200)) - 20
			} else {
				stamps[j] = stampPool[(offS+j*(1+rng.Intn(2)))%len(stampPool)]
			}
		}
		n := length/2 + rng.Intn(length/2+1)
		for j := 0; j < n && !r.dead; j++ {
			id := hx(ids[rng.Intn(nid)])
			c := stamps[rng.Intn(nst)]
			switch rng.Pick(45, 25, 20, 5, 5) {
			case 0:
				r.exec(fmt.Sprintf("store %s %d %s", id, c, genRec(rng, ids[rng.Intn(nid)], c)))
			case 1:
				r.exec(fmt.Sprintf("load %s %d", id, c))
			case 2:
				r.exec("latest " + id)
			case 3:
				r.exec(fmt.Sprintf("lag %d", rng.Intn(4)))
			case 4:
				if rng.Intn(2) == 0 {
					r.exec("fault plain")
				} else {
					r.exec("fault")
				}
			}
		}
		// closing sweep: every key is read back, every id asked for its latest
		for _, id := range ids {
			if r.dead {
				break
			}
			r.exec("latest " + hx(id))
			for _, c := range stamps {
				r.exec(fmt.Sprintf("load %s %d", hx(id), c))
			}
		}
	}
	if r.b != nil {
		r.b.close()
	}
}

// exhaustive runs every sequence of exactly maxLen operations over a small alphabet (two ids, two
// stamps, two record contents, lag and fault directives) on every backend kind, each followed by the
// read-back sweep.
func exhaustive(maxLen int) {
	a, b := hx("_SK_svc_prod"), hx("k\"é")
	r1 := a + ",0,1,x00ff10,-"
	r2 := hx("") + ",1,2,x," + hx("p<\"\\") + "@-5"
	alpha := []string{
		"store " + a + " 1 " + r1, "store " + a + " 1 " + r2, "store " + a + " 2 " + r2, "store " + b + " 1 " + r1,
		"load " + a + " 1", "load " + a + " 2", "latest " + a, "latest " + b, "lag 1", "fault",
	}
	kinds := []string{"memory", "sql:default", "sql:mysql", "sql:postgres", "sql:oracle", "ddb1", "ddb2"}
	r := &run{}
	seq := make([]int, maxLen)
	base := alpha
	for _, kind := range kinds {
		for i := range seq {
			seq[i] = 0
		}
		alpha := base
		if strings.HasPrefix(kind, "ddb") {
			alpha = append(append([]string(nil), base...), "fault plain")
		}
		for {
			r.exec(fmt.Sprintf("be %s table=- suffix=0 region=us-west-2", kind))
			for _, x := range seq {
				if r.dead {
					break
				}
				r.exec(alpha[x])
			}
			for _, id := range []string{a, b} {
				if r.dead {
					break
				}
				r.exec("latest " + id)
				r.exec("load " + id + " 1")
				r.exec("load " + id + " 2")
			}
			i := maxLen - 1
			for i >= 0 {
				seq[i]++
				if seq[i] < len(alpha) {
					break
				}
				seq[i] = 0
				i--
			}
			if i < 0 {
				break
			}
		}
	}
	if r.b != nil {
		r.b.close()
	}
}

func replay(path string) {
	f, err := os.Open(path)
	if err != nil {
		fmt.Fprintln(os.Stderr, err)
		os.Exit(2)
	}
	defer f.Close()
	sc := bufio.NewScanner(f)
	sc.Buffer(make([]byte, 1<<20), 1<<24)
	r := &run{}
	for sc.Scan() {
		line := sc.Text()
		if i := strings.Index(line, " => "); i >= 0 {
			line = line[:i]
		}
		if strings.TrimSpace(line) == "" || strings.HasPrefix(line, "#") {
			continue
		}
		r.exec(line)
	}
	if r.b != nil {
		r.b.close()
	}
}

func main() {
	mode := flag.String("mode", "random", "random|exhaustive|replay")
	maxLen := flag.Int("maxlen", 3, "exhaustive sequence length")
	cases := flag.Int("cases", 300, "random cases")
	length := flag.Int("len", 30, "ops per random case (upper bound)")
	only := flag.String("only", "", "restrict random cases to one backend kind")
	file := flag.String("file", "", "replay file")
	flag.Parse()
	defer out.Flush()
	switch *mode {
	case "random":
		randomCases(prng.FromEnv(13), *cases, *length, *only)
	case "exhaustive":
		exhaustive(*maxLen)
	case "replay":
		replay(*file)
	}
}
