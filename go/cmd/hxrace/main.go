// hxrace runs N real SDK processes (fresh SessionFactories without key caching, sharing one
// metastore and KMS) that encrypt for the same partition at the same time, and controls their
// interleaving at the granularity of individual metastore calls through a gate metastore: every
// Load/LoadLatest/Store of every process blocks until the controller releases it. All interleavings
// of 2 (and, for short scenarios, 3) processes are enumerated; larger configurations are sampled.
//
// Output per explored schedule:
//
//	race <state> n=<N> now=<ns rel> expire=<ns> prec=<ns>
//	row <sk|ik> <created rel> <revoked 0/1> <parent rel>          initial store
//	step <pid> <call>                                             one released call (as observed)
//	end <pid> <ok ik=<c> skc=<c>|err>
//	final rows=<kid@c:parent,…> xdec=<ok|fail>
//
// The Lean driver (md_conc race) replays the same schedule on Model/KeyRace.lean and compares
// every call and every result; the monitor checks the property on the implementation's own run.
package main

import (
	"bufio"
	"context"
	"flag"
	"fmt"
	"os"
	"sort"
	"strings"
	"sync/atomic"
	"time"

	"github.com/godaddy/asherah/go/appencryption"
	"github.com/godaddy/asherah/go/appencryption/pkg/crypto/aead"
	"github.com/godaddy/asherah/go/appencryption/pkg/kms"
	"github.com/godaddy/asherah/go/appencryption/pkg/persistence"

	"verifharness/internal/prng"
)

const t0 = int64(1700000000)

var out = bufio.NewWriterSize(os.Stdout, 1<<20)

type event struct {
	pid  int
	call string // "" = process finished
	res  string
}

type gateMS struct {
	pid    int
	inner  *persistence.MemoryMetastore
	events chan event
	resume chan struct{}
	active *atomic.Bool
}

func kid(id string) string {
	if strings.HasPrefix(id, "_SK_") {
		return "sk"
	}
	return "ik"
}

func (g *gateMS) gate(call func() string) string {
	if !g.active.Load() {
		return call()
	}
	// announce, wait for the controller, perform, report what was seen
	g.events <- event{pid: g.pid, call: "?"}
	<-g.resume
	desc := call()
	g.events <- event{pid: g.pid, call: desc}
	return desc
}

func (g *gateMS) Load(ctx context.Context, id string, created int64) (r *appencryption.EnvelopeKeyRecord, err error) {
	g.gate(func() string {
		r, err = g.inner.Load(ctx, id, created)
		f := 0
		if r != nil {
			f = 1
		}
		return fmt.Sprintf("L:%s@%d:%d", kid(id), created-t0, f)
	})
	return
}

func (g *gateMS) LoadLatest(ctx context.Context, id string) (r *appencryption.EnvelopeKeyRecord, err error) {
	g.gate(func() string {
		r, err = g.inner.LoadLatest(ctx, id)
		if r != nil {
			return fmt.Sprintf("LL:%s:%d", kid(id), r.Created-t0)
		}
		return fmt.Sprintf("LL:%s:-", kid(id))
	})
	return
}

func (g *gateMS) Store(ctx context.Context, id string, created int64, e *appencryption.EnvelopeKeyRecord) (ok bool, err error) {
	g.gate(func() string {
		ok, err = g.inner.Store(ctx, id, created, e)
		b := 0
		if ok {
			b = 1
		}
		return fmt.Sprintf("S:%s@%d:%d", kid(id), created-t0, b)
	})
	return
}

type startState struct {
	name  string
	build func(w *world)
	now   time.Duration // clock at race time, relative to t0
}

type world struct {
	now    atomic.Int64
	inner  *persistence.MemoryMetastore
	kms    *kms.StaticKMS
	expire time.Duration
	prec   time.Duration
}

func (w *world) policy(cache bool) *appencryption.CryptoPolicy {
	p := appencryption.NewCryptoPolicy()
	p.ExpireKeyAfter = w.expire
	p.RevokeCheckInterval = time.Minute
	p.CreateDatePrecision = w.prec
	p.CacheSystemKeys = cache
	p.CacheIntermediateKeys = cache
	return p
}

func (w *world) factory(ms appencryption.Metastore) *appencryption.SessionFactory {
	return appencryption.NewSessionFactory(&appencryption.Config{Service: "svc", Product: "prod", Policy: w.policy(false)},
		ms, w.kms, aead.NewAES256GCM())
}

func (w *world) cachedFactory() *appencryption.SessionFactory {
	return appencryption.NewSessionFactory(&appencryption.Config{Service: "svc", Product: "prod", Policy: w.policy(true)},
		w.inner, w.kms, aead.NewAES256GCM())
}

func (w *world) seqEncrypt() *appencryption.DataRowRecord {
	f := w.factory(w.inner)
	defer f.Close()
	s, _ := f.GetSession("p0")
	defer s.Close()
	d, err := s.Encrypt(context.Background(), []byte("seed"))
	if err != nil {
		panic(err)
	}
	return d
}

func (w *world) revokeLatest(id string) {
	var latest int64 = -1
	for c := range w.inner.Envelopes[id] {
		if c > latest {
			latest = c
		}
	}
	if latest >= 0 {
		cp := *w.inner.Envelopes[id][latest]
		cp.Revoked = true
		w.inner.Envelopes[id][latest] = &cp
	}
}

const skID, ikID = "_SK_svc_prod", "_IK_p0_svc_prod"

func states() []startState {
	return []startState{
		{"cold", func(w *world) {}, 5 * time.Second},
		{"warm", func(w *world) { w.seqEncrypt() }, 5 * time.Second},
		{"same-second", func(w *world) { w.seqEncrypt() }, 0},
		{"expired", func(w *world) { w.seqEncrypt() }, 601 * time.Second},
		{"ik-revoked", func(w *world) { w.seqEncrypt(); w.revokeLatest(ikID) }, 5 * time.Second},
		{"sk-revoked", func(w *world) { w.seqEncrypt(); w.revokeLatest(skID) }, 5 * time.Second},
		{"both-revoked", func(w *world) { w.seqEncrypt(); w.revokeLatest(skID); w.revokeLatest(ikID) }, 5 * time.Second},
		{"ik-revoked-same-second", func(w *world) { w.seqEncrypt(); w.revokeLatest(ikID) }, 0},
		{"sk-revoked-same-second", func(w *world) { w.seqEncrypt(); w.revokeLatest(skID) }, 0},
		{"mismatched-parent", func(w *world) { // the latest IK (revoked, stamped in the current second) is under an OLDER system key than the latest valid one
			f1 := w.cachedFactory()
			s1, _ := f1.GetSession("p0")
			s1.Encrypt(context.Background(), []byte("a")) // SK_a@0, IK@0
			w.revokeLatest(skID)
			w.revokeLatest(ikID)
			w.now.Add(int64(3 * time.Second))
			f2 := w.factory(w.inner) // another process rotates the system key: SK_b@3
			s9, _ := f2.GetSession("p9")
			s9.Encrypt(context.Background(), []byte("x"))
			s9.Close()
			f2.Close()
			w.now.Add(int64(2 * time.Second))
			// a fresh session of the warm factory still trusts its cached SK_a: IK@5 under SK_a
			s2, _ := f1.GetSession("p0")
			s2.Encrypt(context.Background(), []byte("b"))
			w.revokeLatest(ikID)
			s1.Close()
			s2.Close()
			f1.Close()
		}, 5 * time.Second},
		{"rotated-sk-old-ik", func(w *world) { // an IK under an old (revoked) SK plus a newer valid SK
			w.seqEncrypt()
			w.revokeLatest(skID)
			w.now.Add(int64(2 * time.Second))
			// a process for another partition rotates the SK only
			f := w.factory(w.inner)
			s, _ := f.GetSession("p9")
			s.Encrypt(context.Background(), []byte("x"))
			s.Close()
			f.Close()
		}, 7 * time.Second},
	}
}

func newWorld(st startState) *world {
	w := &world{inner: persistence.NewMemoryMetastore(), expire: 600 * time.Second, prec: time.Second}
	w.now.Store(t0 * 1e9)
	k, err := kms.NewStatic("thisIsAStaticMasterKeyForTesting", aead.NewAES256GCM())
	if err != nil {
		panic(err)
	}
	w.kms = k
	appencryption.VerifSetClock(func() time.Time { return time.Unix(0, w.now.Load()) })
	st.build(w)
	w.now.Store(t0*1e9 + int64(st.now))
	return w
}

func rowsOf(ms *persistence.MemoryMetastore) []string {
	var rows []string
	for id, m := range ms.Envelopes {
		if id != skID && id != ikID {
			continue
		}
		for c, r := range m {
			rev, par := 0, int64(0)
			if r.Revoked {
				rev = 1
			}
			if r.ParentKeyMeta != nil {
				par = r.ParentKeyMeta.Created - t0
			}
			rows = append(rows, fmt.Sprintf("%s %d %d %d", kid(id), c-t0, rev, par))
		}
	}
	sort.Strings(rows)
	return rows
}

// runSchedule executes one schedule prefix followed by the default policy (lowest live pid);
// returns the complete schedule and, per step, the set of processes that were waiting.
func runSchedule(st startState, n int, prefix []int, emit bool) (sched []int, live [][]int) {
	w := newWorld(st)
	defer w.kms.Close()
	var lines []string
	lines = append(lines, fmt.Sprintf("race %s n=%d now=%d expire=%d prec=%d", st.name, n, w.now.Load()-t0*1e9, int64(w.expire), int64(w.prec)))
	for _, r := range rowsOf(w.inner) {
		lines = append(lines, "row "+r)
	}
	events := make(chan event, 4*n)
	active := &atomic.Bool{}
	active.Store(true)
	gates := make([]*gateMS, n)
	recs := make([]*appencryption.DataRowRecord, n)
	errs := make([]error, n)
	facs := make([]*appencryption.SessionFactory, n)
	for i := 0; i < n; i++ {
		gates[i] = &gateMS{pid: i, inner: w.inner, events: events, resume: make(chan struct{}), active: active}
		facs[i] = w.factory(gates[i])
		go func(i int) {
			s, err := facs[i].GetSession("p0")
			if err == nil {
				recs[i], err = s.Encrypt(context.Background(), []byte(fmt.Sprintf("payload-%d", i)))
				s.Close()
			}
			errs[i] = err
			events <- event{pid: i, call: ""}
		}(i)
	}
	waiting := map[int]bool{}
	finished := 0
	// wait until every process is parked at its first call (or finished)
	settle := func(expect int) {
		for len(waiting)+finished < expect {
			ev := <-events
			if ev.call == "" {
				finished++
			} else {
				waiting[ev.pid] = true
			}
		}
	}
	settle(n)
	step := 0
	for len(waiting) > 0 {
		var ls []int
		for p := range waiting {
			ls = append(ls, p)
		}
		sort.Ints(ls)
		pick := ls[0]
		if step < len(prefix) {
			pick = prefix[step]
			if !waiting[pick] {
				// invalid prefix (process not waiting): should not happen in DFS
				pick = ls[0]
			}
		}
		live = append(live, ls)
		sched = append(sched, pick)
		delete(waiting, pick)
		gates[pick].resume <- struct{}{}
		ev := <-events // the call's own report
		lines = append(lines, fmt.Sprintf("step %d %s", pick, ev.call))
		// now the process runs on to its next call or to the end
		ev = <-events
		if ev.call == "" {
			finished++
		} else {
			waiting[ev.pid] = true
		}
		step++
	}
	active.Store(false)
	for i := 0; i < n; i++ {
		if errs[i] != nil || recs[i] == nil {
			lines = append(lines, fmt.Sprintf("end %d err", i))
			continue
		}
		ik := recs[i].Key.ParentKeyMeta.Created
		skc := "-"
		if r, ok := w.inner.Envelopes[ikID][ik]; ok && r.ParentKeyMeta != nil {
			skc = fmt.Sprint(r.ParentKeyMeta.Created - t0)
		}
		lines = append(lines, fmt.Sprintf("end %d ok ik=%d skc=%s", i, ik-t0, skc))
	}
	// every process decrypts every other's record with a fresh factory
	x := "ok"
	for i := 0; i < n; i++ {
		if recs[i] == nil {
			continue
		}
		f := w.factory(w.inner)
		s, _ := f.GetSession("p0")
		p, err := s.Decrypt(context.Background(), *recs[i])
		if err != nil || string(p) != fmt.Sprintf("payload-%d", i) {
			x = "fail"
		}
		s.Close()
		f.Close()
	}
	var fr []string
	for _, r := range rowsOf(w.inner) {
		f := strings.Fields(r)
		fr = append(fr, fmt.Sprintf("%s@%s:%s:%s", f[0], f[1], f[2], f[3]))
	}
	lines = append(lines, fmt.Sprintf("final rows=%s xdec=%s", strings.Join(fr, ","), x))
	for i := range facs {
		facs[i].Close()
	}
	if emit {
		for _, l := range lines {
			fmt.Fprintln(out, l)
		}
	}
	return
}

var nSched int

func explore(st startState, n int, prefix []int, limit int) {
	if limit > 0 && nSched >= limit {
		return
	}
	sched, live := runSchedule(st, n, prefix, true)
	nSched++
	for j := len(sched) - 1; j >= len(prefix); j-- {
		for _, q := range live[j] {
			if q != sched[j] {
				np := append(append([]int(nil), sched[:j]...), q)
				explore(st, n, np, limit)
			}
		}
	}
}

func main() {
	mode := flag.String("mode", "all2", "all2|all3|sample")
	limit := flag.Int("limit", 0, "max schedules per state (0 = all)")
	samples := flag.Int("samples", 200, "random schedules in sample mode")
	flag.Parse()
	defer out.Flush()
	switch *mode {
	case "all2":
		for _, st := range states() {
			nSched = 0
			explore(st, 2, nil, *limit)
		}
	case "all3":
		for _, st := range states() {
			nSched = 0
			explore(st, 3, nil, *limit)
		}
	case "sample":
		rng := prng.FromEnv(14)
		sts := states()
		for i := 0; i < *samples; i++ {
			st := sts[rng.Intn(len(sts))]
			n := 3 + rng.Intn(3)
			pre := make([]int, 40)
			for j := range pre {
				pre[j] = rng.Intn(n)
			}
			runSchedule(st, n, pre, true)
		}
	}
}
